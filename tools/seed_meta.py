#!/usr/bin/env python3
"""Fold seeded/<dir>/confirm.log (+ optional extra note lines) into its meta.json."""
import json, os, sys
d = sys.argv[1]
extra = sys.argv[2:]
mp = os.path.join('/verif/seeded', d, 'meta.json')
m = json.load(open(mp))
lc = m.setdefault('lead_confirmation', {"script": "seeded/try.sh (demo with/without the change, crate's own tests with the change, ./check against the changed worktree)", "result": []})
cl = os.path.join('/verif/seeded', d, 'confirm.log')
base = open(cl).read().strip().splitlines() if os.path.exists(cl) else []
keep = [l for l in lc.get('result', []) if l not in base and not l.startswith(('demo ', "crate's", 'check ', 'VIOLATION', '  failed obligation', 'UNDECIDED', 'not yet run'))]
lc['result'] = base + keep + [e for e in extra if e not in keep]
m.setdefault('origin', "independent sub-agent given only the property text and a scratch worktree (second build phase)")
json.dump(m, open(mp, 'w'), indent=1)
print(d, len(lc['result']), "lines")
