#!/bin/sh
# usage: enable_and_run.sh <work dir> <ID>...   — clears "disabled", runs the full quick check, logs verdict
work=$1; shift
cd /verif
for u in "$@"; do
  python3 - "$u" <<'PY'
import json,sys
p='/verif/units/%s/unit.json'%sys.argv[1]
u=json.load(open(p)); u.pop('disabled',None); json.dump(u,open(p,'w'),indent=1)
PY
  s=$(date +%s)
  VERIF_WORK=$work VERIF_JOBS=${VERIF_JOBS:-4} VERIF_NATIVE_REPLAYS=1 ./check $u --tier quick > /verif/.work/full-$u.log 2>&1
  rc=$?
  echo "$u rc=$rc $(( $(date +%s) - s ))s $(grep -c '^KNOWN-FINDING' /verif/.work/full-$u.log) known" >> /verif/.work/full-summary.log
done
