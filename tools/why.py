#!/usr/bin/env python3
import json,sys,collections
d=json.load(open(sys.argv[1]))
for r in d['verification_results']['results']:
    print("==", r['harness_id'].split('::')[-1], r['status'], "%.0fs"%(r.get('duration_ms',0)/1000))
    c=collections.Counter()
    for ch in r.get('checks',[]):
        if ch.get('status') not in ('Success','SUCCESS','Satisfied','SATISFIED','Unreachable','UNREACHABLE'):
            l=ch.get('location') or {}
            c[(ch.get('status'),ch.get('category'),ch.get('description','')[:110], "%s:%s"%(str(l.get('file','?'))[-40:],l.get('line')))]+=1
    for k,v in c.most_common(12): print("   ",v,k)
for e in d.get('error_details',[]): print("ERR", e.get('harness_id','').split('::')[-1], e.get('error_type'), str(e.get('message',''))[:300])
