// Pasted into misc/allow-block-list/src/lib.rs (mod verif) under cfg(kani).
#[allow(unused_imports)]
use super::*;

pub(crate) mod c53 {
    #[allow(unused_imports)]
    use super::super::*;
    include!(concat!(env!("LIBP2P_VERIF"), "/units/C53/lists.rs"));
}
