// Pasted into identity/src/peer_id.rs (mod verif) under cfg(kani).
#[allow(unused_imports)]
use super::*;

pub(crate) mod c20 {
    #[allow(unused_imports)]
    use super::super::*;
    include!(concat!(env!("LIBP2P_VERIF"), "/units/C20/peer_id.rs"));
}
