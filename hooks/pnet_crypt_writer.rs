// Pasted into transports/pnet/src/crypt_writer.rs (mod verif) under cfg(kani).
#[allow(unused_imports)]
use super::*;
