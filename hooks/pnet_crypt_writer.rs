// Pasted into transports/pnet/src/crypt_writer.rs (mod verif) under cfg(kani).
#[allow(unused_imports)]
use super::*;

// C19 (pnet write path): verbatim poll_write / poll_flush / poll_close bodies on a mock
// cipher + recording inner writer, calling the real poll_flush_buf.
pub(crate) mod c19w {
    #[allow(unused_imports)]
    use super::super::*;
    include!(concat!(env!("LIBP2P_VERIF"), "/units/C19/crypt_writer.rs"));
}
