// Pasted into protocols/kad/src/query/peers/fixed.rs (mod verif) under cfg(kani).
#[allow(unused_imports)]
use super::*;
