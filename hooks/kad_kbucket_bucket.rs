// Pasted into protocols/kad/src/kbucket/bucket.rs (mod verif) under cfg(kani).
#[allow(unused_imports)]
use super::*;

pub(crate) mod c37 {
    #[allow(unused_imports)]
    use super::super::*;
    include!(concat!(env!("LIBP2P_VERIF"), "/units/C37/bucket.rs"));
}
