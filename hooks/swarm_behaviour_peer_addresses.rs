// Pasted into swarm/src/behaviour/peer_addresses.rs (mod verif) under cfg(kani).
#[allow(unused_imports)]
use super::*;

pub(crate) mod c12 {
    #[allow(unused_imports)]
    use super::super::*;
    include!(concat!(env!("LIBP2P_VERIF"), "/units/C12/peer.rs"));
}

/// C12: the DialFailure arm of on_swarm_event as a K-fragment (extracted each run)
#[allow(dead_code, unused_imports)]
pub(crate) mod c12f {
    include!(concat!(env!("LIBP2P_VERIF"), "/units/C12/arm.rs"));
}
