// Pasted into swarm/src/connection/pool.rs (mod verif) under cfg(kani).
#[allow(unused_imports)]
use super::*;

pub(crate) mod c02 {
    #[allow(unused_imports)]
    use super::super::*;
    include!(concat!(env!("LIBP2P_VERIF"), "/units/C02/counters.rs"));
}

pub(crate) mod c05 {
    #[allow(unused_imports)]
    use super::super::*;
    include!(concat!(env!("LIBP2P_VERIF"), "/units/C05/check_peer_id.rs"));
}
