// Pasted into swarm/src/connection/pool.rs (mod verif) under cfg(kani).
#[allow(unused_imports)]
use super::*;

pub(crate) mod c02 {
    #[allow(unused_imports)]
    use super::super::*;
    include!(concat!(env!("LIBP2P_VERIF"), "/units/C02/counters.rs"));
}

pub(crate) mod c05 {
    #[allow(unused_imports)]
    use super::super::*;
    include!(concat!(env!("LIBP2P_VERIF"), "/units/C05/check_peer_id.rs"));
}

// Pool bookkeeping fragments (C02 part 2): mounted in the shim tree only (the
// generated mount file is empty in the plain tree).
pub(crate) mod c02p {
    #[allow(unused_imports)]
    use super::super::*;
    include!(concat!(env!("LIBP2P_VERIF_GEN"), "/C02/pool_mount.rs"));
}
