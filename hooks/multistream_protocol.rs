// Pasted into misc/multistream-select/src/protocol.rs (mod verif) under cfg(kani).
#[allow(unused_imports)]
use super::*;
