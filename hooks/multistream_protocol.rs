// Pasted into misc/multistream-select/src/protocol.rs (mod verif) under cfg(kani).
#[allow(unused_imports)]
use super::*;

pub(crate) mod c15 {
    #[allow(unused_imports)]
    use super::super::*;
    include!(concat!(env!("LIBP2P_VERIF"), "/units/C15/protocol.rs"));
}
