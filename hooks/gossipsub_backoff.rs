// Pasted into protocols/gossipsub/src/backoff.rs (mod verif) under cfg(kani).
#[allow(unused_imports)]
use super::*;

pub(crate) mod c32 {
    #[allow(unused_imports)]
    use super::super::*;
    include!(concat!(env!("LIBP2P_VERIF"), "/units/C32/backoff.rs"));
}
