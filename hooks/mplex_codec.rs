// Pasted into muxers/mplex/src/codec.rs (mod verif) under cfg(kani).
#[allow(unused_imports)]
use super::*;

pub(crate) mod c25 {
    #[allow(unused_imports)]
    use super::super::*;
    include!(concat!(env!("LIBP2P_VERIF"), "/units/C25/codec.rs"));
}
