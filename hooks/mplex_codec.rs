// Pasted into muxers/mplex/src/codec.rs (mod verif) under cfg(kani).
#[allow(unused_imports)]
use super::*;
