// Pasted into transports/noise/src/io.rs (mod verif) under cfg(kani).
#[allow(unused_imports)]
use super::*;

pub(crate) mod c17o {
    #[allow(unused_imports)]
    use super::super::*;
    include!(concat!(env!("LIBP2P_VERIF"), "/units/C17/output.rs"));
}
