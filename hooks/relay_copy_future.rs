// Pasted into protocols/relay/src/copy_future.rs (mod verif) under cfg(kani).
#[allow(unused_imports)]
use super::*;
