// Pasted into protocols/relay/src/copy_future.rs (mod verif) under cfg(kani).
#[allow(unused_imports)]
use super::*;

pub(crate) mod c49 {
    #[allow(unused_imports)]
    use super::super::*;
    include!(concat!(env!("LIBP2P_VERIF"), "/units/C49/copy.rs"));
}
