// Pasted into misc/prost-codec/src/lib.rs (mod verif) under cfg(kani).
#[allow(unused_imports)]
use super::*;

pub(crate) mod c57 {
    #[allow(unused_imports)]
    use super::super::*;
    include!(concat!(env!("LIBP2P_VERIF"), "/units/C57/codec.rs"));
}
