// Pasted into protocols/rendezvous/src/server.rs (mod verif) under cfg(kani).
#[allow(unused_imports)]
use super::*;
