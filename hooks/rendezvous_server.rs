// Pasted into protocols/rendezvous/src/server.rs (mod verif) under cfg(kani).
#[allow(unused_imports)]
use super::*;

pub(crate) mod c51 {
    #[allow(unused_imports)]
    use super::super::*;
    include!(concat!(env!("LIBP2P_VERIF"), "/units/C51/registrations.rs"));
}

// C51 (discovery): verbatim body of Registrations::get on array stand-ins for
// BiMap / HashMap / LruCache / HashSet.
pub(crate) mod c51g {
    #[allow(unused_imports)]
    use super::super::*;
    include!(concat!(env!("LIBP2P_VERIF"), "/units/C51/discover.rs"));
}
