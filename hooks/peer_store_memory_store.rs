// Pasted into misc/peer-store/src/memory_store.rs (mod verif) under cfg(kani).
#[allow(unused_imports)]
use super::*;
