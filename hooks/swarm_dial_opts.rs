// Pasted into swarm/src/dial_opts.rs (mod verif) under cfg(kani).
#[allow(unused_imports)]
use super::*;
