// Pasted into swarm/src/dial_opts.rs (mod verif) under cfg(kani).
#[allow(unused_imports)]
use super::*;

pub(crate) mod c03 {
    #[allow(unused_imports)]
    use super::super::*;
    include!(concat!(env!("LIBP2P_VERIF"), "/units/C03/dial_opts.rs"));
}
