// Pasted into swarm/src/connection.rs (mod verif) under cfg(kani).
#[allow(unused_imports)]
use super::*;

pub(crate) mod c03 {
    #[allow(unused_imports)]
    use super::super::*;
    include!(concat!(env!("LIBP2P_VERIF"), "/units/C03/connection_id.rs"));
}

pub(crate) mod c10 {
    #[allow(unused_imports)]
    use super::super::*;
    include!(concat!(env!("LIBP2P_VERIF"), "/units/C10/shutdown.rs"));
}
