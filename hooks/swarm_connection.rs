// Pasted into swarm/src/connection.rs (mod verif) under cfg(kani).
#[allow(unused_imports)]
use super::*;
