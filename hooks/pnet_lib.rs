// Pasted into transports/pnet/src/lib.rs (mod verif) under cfg(kani).
#[allow(unused_imports)]
use super::*;

pub(crate) mod c19 {
    #[allow(unused_imports)]
    use super::super::*;
    include!(concat!(env!("LIBP2P_VERIF"), "/units/C19/key_file.rs"));
}
