// Pasted into misc/connection-limits/src/lib.rs (mod verif) under cfg(kani).
#[allow(unused_imports)]
use super::*;

pub(crate) mod c52 {
    #[allow(unused_imports)]
    use super::super::*;
    include!(concat!(env!("LIBP2P_VERIF"), "/units/C52/check_limit.rs"));
}

pub(crate) mod c52b {
    #[allow(unused_imports)]
    use super::super::*;
    include!(concat!(env!("LIBP2P_VERIF"), "/units/C52/behaviour.rs"));
}
