// Pasted into protocols/autonat/src/v1/behaviour/as_server.rs (mod verif) under cfg(kani).
#[allow(unused_imports)]
use super::*;

pub(crate) mod c50 {
    #[allow(unused_imports)]
    use super::super::*;
    include!(concat!(env!("LIBP2P_VERIF"), "/units/C50/filter.rs"));
}
