// Pasted into protocols/identify/src/behaviour.rs (mod verif) under cfg(kani).
#[allow(unused_imports)]
use super::*;

pub(crate) mod c46 {
    #[allow(unused_imports)]
    use super::super::*;
    include!(concat!(env!("LIBP2P_VERIF"), "/units/C46/matches.rs"));
}
