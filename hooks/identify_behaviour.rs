// Pasted into protocols/identify/src/behaviour.rs (mod verif) under cfg(kani).
#[allow(unused_imports)]
use super::*;
