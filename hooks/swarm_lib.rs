// Pasted into swarm/src/lib.rs (mod verif) under cfg(kani).
#[allow(unused_imports)]
use super::*;

pub(crate) mod c04 {
    #[allow(unused_imports)]
    use super::super::*;
    include!(concat!(env!("LIBP2P_VERIF"), "/units/C04/dial.rs"));
}
