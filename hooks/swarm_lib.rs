// Pasted into swarm/src/lib.rs (mod verif) under cfg(kani).
#[allow(unused_imports)]
use super::*;
