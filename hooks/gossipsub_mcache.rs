// Pasted into protocols/gossipsub/src/mcache.rs (mod verif) under cfg(kani).
#[allow(unused_imports)]
use super::*;

// C33 (message cache part) compiles the verbatim MessageCache text against stand-ins
// that need the dependency shims: mounted in the shim tree only (the generated mount
// file is empty elsewhere).
pub(crate) mod c33m {
    include!(concat!(env!("LIBP2P_VERIF_GEN"), "/C33/mcache_mount.rs"));
}
