// Pasted into protocols/gossipsub/src/mcache.rs (mod verif) under cfg(kani).
#[allow(unused_imports)]
use super::*;
