// Pasted into misc/multistream-select/src/length_delimited.rs (mod verif) under cfg(kani).
#[allow(unused_imports)]
use super::*;
