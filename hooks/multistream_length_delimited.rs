// Pasted into misc/multistream-select/src/length_delimited.rs (mod verif) under cfg(kani).
#[allow(unused_imports)]
use super::*;

pub(crate) mod c15 {
    #[allow(unused_imports)]
    use super::super::*;
    include!(concat!(env!("LIBP2P_VERIF"), "/units/C15/length_delimited.rs"));
}
