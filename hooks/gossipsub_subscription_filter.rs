// Pasted into protocols/gossipsub/src/subscription_filter.rs (mod verif) under cfg(kani).
#[allow(unused_imports)]
use super::*;

pub(crate) mod c36 {
    #[allow(unused_imports)]
    use super::super::*;
    include!(concat!(env!("LIBP2P_VERIF"), "/units/C36/filters.rs"));
}
