// Pasted into protocols/gossipsub/src/subscription_filter.rs (mod verif) under cfg(kani).
#[allow(unused_imports)]
use super::*;

// C36 compiles the verbatim filter text against stand-ins that need the dependency
// shims: mounted in the shim tree only (the generated mount file is empty elsewhere).
pub(crate) mod c36 {
    include!(concat!(env!("LIBP2P_VERIF_GEN"), "/C36/mount.rs"));
}
