// Pasted into protocols/gossipsub/src/subscription_filter.rs (mod verif) under cfg(kani).
#[allow(unused_imports)]
use super::*;
