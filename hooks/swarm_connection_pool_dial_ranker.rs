// Pasted into swarm/src/connection/pool/dial_ranker.rs (mod verif) under cfg(kani).
#[allow(unused_imports)]
use super::*;

pub(crate) mod c09 {
    #[allow(unused_imports)]
    use super::super::*;
    include!(concat!(env!("LIBP2P_VERIF"), "/units/C09/ranker.rs"));
}
