// Pasted into swarm/src/connection/pool/dial_ranker.rs (mod verif) under cfg(kani).
#[allow(unused_imports)]
use super::*;

pub(crate) mod c09 {
    #[allow(unused_imports)]
    use super::super::*;
    include!(concat!(env!("LIBP2P_VERIF"), "/units/C09/ranker.rs"));
}

/// C09 on the sequence model of Multiaddr (function texts extracted each run)
#[allow(dead_code, unused_imports, unused_variables)]
pub(crate) mod c09m {
    use super::super::*;
    use super::c09::{private4, private6, special4, special6};
    include!(concat!(env!("LIBP2P_VERIF"), "/units/C09/model.rs"));
}
