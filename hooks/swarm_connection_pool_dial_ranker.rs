// Pasted into swarm/src/connection/pool/dial_ranker.rs (mod verif) under cfg(kani).
#[allow(unused_imports)]
use super::*;
