// Pasted into protocols/kad/src/behaviour.rs (mod verif) under cfg(kani).
#[allow(unused_imports)]
use super::*;

pub(crate) mod c42 {
    #[allow(unused_imports)]
    use super::super::*;
    include!(concat!(env!("LIBP2P_VERIF"), "/units/C42/behaviour.rs"));
}

pub(crate) mod c43 {
    #[allow(unused_imports)]
    use super::super::*;
    include!(concat!(env!("LIBP2P_VERIF"), "/units/C43/behaviour.rs"));
}
