// Pasted into protocols/kad/src/kbucket.rs (mod verif) under cfg(kani).
#[allow(unused_imports)]
use super::*;

pub(crate) mod c40 {
    #[allow(unused_imports)]
    use super::super::*;
    include!(concat!(env!("LIBP2P_VERIF"), "/units/C40/bucket_index.rs"));
}

pub(crate) mod c38 {
    #[allow(unused_imports)]
    use super::super::*;
    include!(concat!(env!("LIBP2P_VERIF"), "/units/C38/closest.rs"));
}

// re-export for units mounted outside `kbucket` (the `key` module is private to it)
pub(crate) mod c41 {
    #[allow(unused_imports)]
    pub(crate) use super::super::key::verif::c41::key_with_bytes;
}
