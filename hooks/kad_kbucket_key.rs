// Pasted into protocols/kad/src/kbucket/key.rs (mod verif) under cfg(kani).
#[allow(unused_imports)]
use super::*;

pub(crate) mod c40 {
    #[allow(unused_imports)]
    use super::super::*;
    include!(concat!(env!("LIBP2P_VERIF"), "/units/C40/key.rs"));
}

pub(crate) mod c41 {
    #[allow(unused_imports)]
    use super::super::*;
    include!(concat!(env!("LIBP2P_VERIF"), "/units/C41/key_helper.rs"));
}
