// Pasted into swarm/src/behaviour/listen_addresses.rs (mod verif) under cfg(kani).
#[allow(unused_imports)]
use super::*;

pub(crate) mod c12 {
    #[allow(unused_imports)]
    use super::super::*;
    include!(concat!(env!("LIBP2P_VERIF"), "/units/C12/listen.rs"));
}
