// Pasted into swarm/src/behaviour/listen_addresses.rs (mod verif) under cfg(kani).
#[allow(unused_imports)]
use super::*;
