// Pasted into protocols/gossipsub/src/config.rs (mod verif) under cfg(kani).
#[allow(unused_imports)]
use super::*;

pub(crate) mod c34 {
    #[allow(unused_imports)]
    use super::super::*;
    include!(concat!(env!("LIBP2P_VERIF"), "/units/C34/config.rs"));
}
