// Pasted into protocols/gossipsub/src/time_cache.rs (mod verif) under cfg(kani).
#[allow(unused_imports)]
use super::*;

pub(crate) mod c33 {
    #[allow(unused_imports)]
    use super::super::*;
    include!(concat!(env!("LIBP2P_VERIF"), "/units/C33/time_cache.rs"));
}
