// Pasted into transports/noise/src/io/framed.rs (mod verif) under cfg(kani).
#[allow(unused_imports)]
use super::*;

pub(crate) mod c17 {
    #[allow(unused_imports)]
    use super::super::*;
    include!(concat!(env!("LIBP2P_VERIF"), "/units/C17/framed.rs"));
}
