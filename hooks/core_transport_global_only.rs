// Pasted into core/src/transport/global_only.rs (mod verif) under cfg(kani).
#[allow(unused_imports)]
use super::*;

pub(crate) mod c22 {
    #[allow(unused_imports)]
    use super::super::*;
    include!(concat!(env!("LIBP2P_VERIF"), "/units/C22/global_only.rs"));
}
