// Pasted into swarm/src/behaviour/external_addresses.rs (mod verif) under cfg(kani).
#[allow(unused_imports)]
use super::*;
