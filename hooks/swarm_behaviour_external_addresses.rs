// Pasted into swarm/src/behaviour/external_addresses.rs (mod verif) under cfg(kani).
#[allow(unused_imports)]
use super::*;

pub(crate) mod c12 {
    #[allow(unused_imports)]
    use super::super::*;
    include!(concat!(env!("LIBP2P_VERIF"), "/units/C12/external.rs"));
}

// K-fragment unit on stand-in types (own module: the local `Multiaddr`, `FromSwarm`, ... shadow nothing outside it)
pub(crate) mod c12x {
    include!(concat!(env!("LIBP2P_VERIF"), "/units/C12/external_model.rs"));
}
