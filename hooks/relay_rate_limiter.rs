// Pasted into protocols/relay/src/behaviour/rate_limiter.rs (mod verif) under cfg(kani).
#[allow(unused_imports)]
use super::*;

pub(crate) mod c48 {
    #[allow(unused_imports)]
    use super::super::*;
    include!(concat!(env!("LIBP2P_VERIF"), "/units/C48/bucket.rs"));
}
