// Pasted into protocols/relay/src/behaviour/rate_limiter.rs (mod verif) under cfg(kani).
#[allow(unused_imports)]
use super::*;
