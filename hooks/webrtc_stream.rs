// Pasted into misc/webrtc-utils/src/stream.rs (mod verif) under cfg(kani).
#[allow(unused_imports)]
use super::*;

pub(crate) mod c56s {
    #[allow(unused_imports)]
    use super::super::*;
    include!(concat!(env!("LIBP2P_VERIF"), "/units/C56/stream.rs"));
}
