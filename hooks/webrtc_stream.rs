// Pasted into misc/webrtc-utils/src/stream.rs (mod verif) under cfg(kani).
#[allow(unused_imports)]
use super::*;
