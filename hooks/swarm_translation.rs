// Pasted into swarm/src/translation.rs (mod verif) under cfg(kani).
#[allow(unused_imports)]
use super::*;

pub(crate) mod c13 {
    #[allow(unused_imports)]
    use super::super::*;
    include!(concat!(env!("LIBP2P_VERIF"), "/units/C13/translation.rs"));
}
