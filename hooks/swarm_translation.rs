// Pasted into swarm/src/translation.rs (mod verif) under cfg(kani).
#[allow(unused_imports)]
use super::*;
