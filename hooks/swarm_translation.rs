// Pasted into swarm/src/translation.rs (mod verif) under cfg(kani).
#[allow(unused_imports)]
use super::*;

pub(crate) mod c13 {
    #[allow(unused_imports)]
    use super::super::*;
    include!(concat!(env!("LIBP2P_VERIF"), "/units/C13/translation.rs"));
}

/// C13 on the sequence model of Multiaddr (function text extracted each run)
#[allow(dead_code, unused_imports)]
pub(crate) mod c13m {
    use super::super::*;
    include!(concat!(env!("LIBP2P_VERIF"), "/units/C13/model.rs"));
}
