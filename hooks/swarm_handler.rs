// Pasted into swarm/src/handler.rs (mod verif) under cfg(kani).
#[allow(unused_imports)]
use super::*;

// C11: ProtocolsChange helpers compiled against the dependency shims; mounted in
// the shim tree only (the generated mount file is empty in the plain tree).
pub(crate) mod c11 {
    #[allow(unused_imports)]
    use super::super::*;
    include!(concat!(env!("LIBP2P_VERIF_GEN"), "/C11/mount.rs"));
}
pub(crate) mod c11r {
    #[allow(unused_imports)]
    use super::super::*;
    include!(concat!(env!("LIBP2P_VERIF"), "/units/C11/stream_protocol.rs"));
}
