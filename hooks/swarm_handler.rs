// Pasted into swarm/src/handler.rs (mod verif) under cfg(kani).
#[allow(unused_imports)]
use super::*;
