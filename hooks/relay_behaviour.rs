// Pasted into protocols/relay/src/behaviour.rs (mod verif) under cfg(kani).
#[allow(unused_imports)]
use super::*;

// C47: mounted only where behaviour.rs has been retargeted to the dependency shim (shim
// tree with C47 enabled or in VERIF_DEV_UNITS); the generated mount file is empty elsewhere.
pub(crate) mod c47 {
    #[allow(unused_imports)]
    use super::super::*;
    include!(concat!(env!("LIBP2P_VERIF_GEN"), "/C47/mount.rs"));
}
