// Pasted into protocols/relay/src/behaviour.rs (mod verif) under cfg(kani).
#[allow(unused_imports)]
use super::*;

pub(crate) mod c47 {
    #[allow(unused_imports)]
    use super::super::*;
    include!(concat!(env!("LIBP2P_VERIF"), "/units/C47/limits.rs"));
}
