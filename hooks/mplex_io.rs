// Pasted into muxers/mplex/src/io.rs (mod verif) under cfg(kani).
#[allow(unused_imports)]
use super::*;
