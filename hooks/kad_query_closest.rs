// Pasted into protocols/kad/src/query/peers/closest.rs (mod verif) under cfg(kani).
#[allow(unused_imports)]
use super::*;

pub(crate) mod c39 {
    #[allow(unused_imports)]
    use super::super::*;
    include!(concat!(env!("LIBP2P_VERIF"), "/units/C39/closest.rs"));
}
