// Pasted into protocols/kad/src/query/peers/closest.rs (mod verif) under cfg(kani).
#[allow(unused_imports)]
use super::*;
