// Pasted into protocols/gossipsub/src/protocol.rs (mod verif) under cfg(kani).
#[allow(unused_imports)]
use super::*;

pub(crate) mod c31 {
    #[allow(unused_imports)]
    use super::super::*;
    include!(concat!(env!("LIBP2P_VERIF"), "/units/C31/limits.rs"));
}
