// Pasted into protocols/kad/src/record/store/memory.rs (mod verif) under cfg(kani).
#[allow(unused_imports)]
use super::*;

pub(crate) mod c41 {
    #[allow(unused_imports)]
    use super::super::*;
    include!(concat!(env!("LIBP2P_VERIF"), "/units/C41/memory.rs"));
}
