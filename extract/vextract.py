"""Verus units (DESIGN §2.3 "verus wrap", §2.5).

A spec file (units/<ID>/<name>.vspec) is a text file made of sections:

    //@uses
    use std::time::Duration;                       (plain Rust `use` lines, outside verus!{})
    //@prelude
    ...verus text: spec fns, assume_specification, external_body helpers...
    //@item name=<obligation> file=<repo path> fn=<fn name> [after=<regex>] [nth=<n>] [ret=<name>] [strip_self=1]
    //@item name=<obligation> file=<repo path> start="<regex>" end="<regex>" [include_start=1] [include_end=1]
                                                   (fragment item, DESIGN 2.2 K-fragment: the verbatim text between
                                                    two anchors becomes the body of the fn declared in //@sig)
    //@sig
    fn name(params) -> (r: T)                      (fragment items only: the declared signature; its parameters are
                                                    the fragment's free variables)
    //@tail
    (a, b)                                         (fragment items only: result expression appended after the text)
    //@contract
    requires ..., ensures ...,                     (spliced between signature and body)
    //@proof
    ...ghost text placed at the very start of the body...
    //@at <literal anchor text inside the body>
    ...text inserted immediately BEFORE the `{` that follows the anchor (loop invariants/decreases)...
    //@before <literal anchor text inside the body>
    ...ghost text inserted immediately before the anchor...
    //@rewrite <literal> ==> <literal>             (declared, listed in dropped_by_extraction)
    //@drop_macros tracing::
    //@epilogue
    ...verus text: lemmas over the contracts, canary...

The function text between `{` and `}` is copied verbatim from /repo on every run;
every rewrite is declared in the spec file and reported.  Returns the info dict the
driver expects: sha256 of every extracted item, the list of dropped things, and
`fn_of_lines` mapping generated line numbers to the enclosing fn name.
"""
import os
import re
import sys

sys.path.insert(0, os.path.dirname(os.path.abspath(__file__)))
import fragment  # noqa

LostAnchor = fragment.LostAnchor


def _parse(path):
    secs = []
    cur = None
    for line in open(path).read().splitlines():
        m = re.match(r"\s*//@(\w+)\s*(.*)$", line)
        if m:
            cur = {"kind": m.group(1), "arg": m.group(2), "text": []}
            secs.append(cur)
        elif cur is not None:
            cur["text"].append(line)
    for s in secs:
        s["text"] = "\n".join(s["text"]).strip("\n")
    return secs


def _kv(arg):
    d = {}
    for m in re.finditer(r"(\w+)=(\"[^\"]*\"|\S+)", arg):
        v = m.group(2)
        d[m.group(1)] = v[1:-1] if v.startswith('"') else v
    return d


def build(spec_path, repo, out_path):
    secs = _parse(spec_path)
    uses, prelude, epilogue = [], [], []
    items = []
    cur = None
    for s in secs:
        k = s["kind"]
        if k == "uses":
            uses.append(s["text"])
        elif k == "prelude":
            prelude.append(s["text"])
        elif k == "epilogue":
            epilogue.append(s["text"])
        elif k == "item":
            cur = {"kv": _kv(s["arg"]), "contract": "", "proof": "", "at": [], "before": [], "rewrite": [],
                   "drop_macros": [], "sig": "", "tail": ""}
            items.append(cur)
        elif cur is None:
            raise LostAnchor("section //@%s before any //@item in %s" % (k, spec_path))
        elif k == "contract":
            cur["contract"] = s["text"]
        elif k in ("sig", "tail"):
            cur[k] = s["text"]
        elif k == "proof":
            cur["proof"] = s["text"]
        elif k == "at":
            cur["at"].append((s["arg"], s["text"]))
        elif k == "before":
            cur["before"].append((s["arg"], s["text"]))
        elif k == "rewrite":
            a, _, b = s["arg"].partition(" ==> ")
            cur["rewrite"].append((a, b))
        elif k == "drop_macros":
            cur["drop_macros"] += s["arg"].split()
        else:
            raise LostAnchor("unknown section //@%s" % k)

    info = {"sha256": {}, "dropped": [], "gen": out_path}
    body_parts = []
    for it in items:
        kv = it["kv"]
        path = os.path.join(repo, kv["file"])
        try:
            src = open(path).read()
        except OSError as e:
            raise LostAnchor(str(e))
        after = kv.get("after")
        nth = int(kv.get("nth", 0))
        if kv.get("start"):
            # fragment item: verbatim text between two anchors, wrapped in the declared signature
            if not kv.get("end") or not it["sig"].strip() or not kv.get("name"):
                raise LostAnchor("fragment item needs name=, start=, end= and a //@sig section")
            kv["fn"] = kv["name"]
            body = fragment.between(src, kv["start"], kv["end"], kv.get("include_start") == "1",
                                    kv.get("include_end") == "1")
            sig = it["sig"].strip()
            info["sha256"]["%s:%s" % (kv["file"], kv["name"])] = fragment.sha(body)
            info["dropped"].append("%s: everything outside the text between /%s/ and /%s/ (wrapped as `%s`)" % (
                kv["file"], kv["start"], kv["end"], " ".join(sig.split())))
            if it["tail"]:
                body = body + "\n" + it["tail"] + "\n"
        else:
            sig = fragment.fn_signature(src, kv["fn"], after, nth)
            body = fragment.fn_body(src, kv["fn"], after, nth)
            info["sha256"]["%s:%s" % (kv["file"], kv["fn"])] = fragment.sha(sig + "{" + body + "}")
            info["dropped"].append("%s: everything outside fn %s (doc comments and attributes of the fn included)" % (
                kv["file"], kv["fn"]))
        # signature: drop attributes/doc lines in front, visibility kept out (free fn in one file)
        sig = re.sub(r"^\s*(///[^\n]*\n|#\[[^\n]*\]\s*\n)*", "", sig)
        sig = re.sub(r"^\s*pub(\([^)]*\))?\s+", "", sig.strip())
        if kv.get("ret"):
            m = re.search(r"->\s*(.+?)\s*$", sig, flags=re.S)
            if not m:
                raise LostAnchor("fn %s has no return type to name" % kv["fn"])
            sig = sig[:m.start()] + "-> (%s: %s)" % (kv["ret"], m.group(1))
        if it["drop_macros"]:
            body, drops = fragment.drop_macros(body, tuple(it["drop_macros"]))
            info["dropped"] += ["%s::%s: dropped %s" % (kv["file"], kv["fn"], d) for d in drops]
        for a, b in it["rewrite"]:
            if a not in body and a not in sig:
                raise LostAnchor("rewrite source %r not in fn %s" % (a, kv["fn"]))
            body = body.replace(a, b)
            sig = sig.replace(a, b)
            info["dropped"].append("%s::%s: rewrite %r -> %r" % (kv["file"], kv["fn"], a, b))
        for anchor, text in it["at"]:
            i = body.find(anchor)
            if i == -1:
                raise LostAnchor("anchor %r not in fn %s" % (anchor, kv["fn"]))
            j = i + len(anchor)
            # the `{` opening the block that follows the anchor
            while j < len(body) and body[j] != "{":
                if body[j] in "([":
                    j = fragment.match_close(body, j)
                j += 1
            if j >= len(body):
                raise LostAnchor("no block after anchor %r in fn %s" % (anchor, kv["fn"]))
            body = body[:j] + "\n" + text + "\n" + body[j:]
        for anchor, text in it["before"]:
            i = body.find(anchor)
            if i == -1:
                raise LostAnchor("anchor %r not in fn %s" % (anchor, kv["fn"]))
            body = body[:i] + text + "\n" + body[i:]
        name = kv.get("name", kv["fn"])
        if name != kv["fn"]:
            sig = re.sub(r"\bfn\s+%s\b" % re.escape(kv["fn"]), "fn " + name, sig, count=1)
        body_parts.append("// ---- extracted verbatim from /repo/%s (fn %s)\n%s\n%s\n{\n%s\n%s}\n" % (
            kv["file"], kv["fn"], sig, it["contract"], it["proof"], body))

    text = "// GENERATED by /verif/extract/vextract.py from %s -- do not edit\n" % os.path.basename(spec_path)
    text += "#![allow(unused_imports, dead_code, unused_variables, unused_mut, unused_assignments)]\nuse vstd::prelude::*;\n" + "\n".join(uses) + "\nverus! {\n"
    text += "\n".join(prelude) + "\n\n" + "\n".join(body_parts) + "\n" + "\n".join(epilogue) + "\n} // verus!\nfn main() {}\n"
    os.makedirs(os.path.dirname(out_path), exist_ok=True)
    open(out_path, "w").write(text)

    lines = text.splitlines()
    owner = []
    last = None
    rx = re.compile(r"^\s*(?:pub(?:\([^)]*\))?\s+)?(?:(?:open|closed|broadcast|uninterp)\s+)*(?:(?:proof|spec|exec|axiom)\s+)*(?:const\s+)?fn\s+(\w+)")
    for l in lines:
        m = rx.match(l)
        if m:
            last = m.group(1)
        owner.append(last)

    def fn_of_lines(nums):
        return {n: owner[n - 1] for n in nums if 0 < n <= len(owner)}

    info["fn_of_lines"] = fn_of_lines
    info["scan"] = [k for k in ("external_body", "assume_specification", "admit(", "assume(", "axiom fn")
                    if k in text]
    return info
