"""Retarget (DESIGN §2.3/2.4): in the scratch copy of a non-plain tree, rewrite the
`use` lines named by each unit so that HashMap/HashSet/... resolve to the
dependency shims in /verif/shims, and mount the shim module in the crate root.
Only exact, declared text replacements are performed; a replacement whose source
text is no longer present marks the owning unit as lost (driver exit 2)."""
import json
import os

LOST = {}


def apply(tree, dst, here):
    dropped = []
    units = os.path.join(here, "units")
    for pid in sorted(os.listdir(units)):
        up = os.path.join(units, pid, "unit.json")
        if not os.path.exists(up):
            continue
        u = json.load(open(up))
        if u.get("disabled") and pid not in os.environ.get("VERIF_DEV_UNITS", "").split(","):
            continue
        lost = []
        for rt in u.get("retarget", []):
            if rt.get("tree", "shim") != tree:
                continue
            if "crate_root" in rt:
                path = os.path.join(dst, rt["crate_root"])
                try:
                    s = open(path).read()
                except OSError as e:
                    lost.append("%s: %s" % (rt["crate_root"], e))
                    continue
                marker = "pub(crate) mod verif_shims;"
                if marker not in s:
                    s += '\n#[path = "%s/shims/%s"]\n%s\n' % (here, rt.get("shim", "collections.rs"), marker)
                    open(path, "w").write(s)
                continue
            path = os.path.join(dst, rt["file"])
            try:
                s = open(path).read()
            except OSError as e:
                lost.append("%s: %s" % (rt["file"], e))
                continue
            for old, new in rt["replace"]:
                if new in s and old not in s:
                    continue  # already applied by another unit
                if s.count(old) != 1:
                    lost.append("%s: retarget source %r found %d times" % (rt["file"], old[:60], s.count(old)))
                    continue
                s = s.replace(old, new)
                dropped.append("%s: import retargeted %r -> %r" % (rt["file"], " ".join(old.split())[:80], " ".join(new.split())[:80]))
            open(path, "w").write(s)
        if lost:
            LOST[pid] = lost
    return dropped
