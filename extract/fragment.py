"""Mechanical extraction of function bodies / fragments from /repo source text
(DESIGN §2.3).  Works on text with a brace/paren matcher that understands
strings, chars, lifetimes and comments.  Operations:

  fn_body(src, name, after=regex)      body text of `fn name` (first occurrence after anchor)
  fn_item(src, name, after=regex)      whole item text, from `fn`/`pub fn` to closing brace
  between(src, start_regex, end_regex) verbatim text between two anchors
  drop_macros(text, prefixes)          remove statement macros such as tracing::debug!(...);

Everything that is dropped is reported to the caller so it can be printed in the
evidence.  A missing anchor raises LostAnchor (driver exit 2, never an alarm).
"""
import hashlib
import re


class LostAnchor(Exception):
    pass


def _skip_string(s, i):
    # s[i] == '"'
    i += 1
    n = len(s)
    while i < n:
        c = s[i]
        if c == "\\":
            i += 2
            continue
        if c == '"':
            return i + 1
        i += 1
    return n


def _skip_raw_string(s, i):
    # s[i] == 'r', followed by #*"
    j = i + 1
    hashes = 0
    while j < len(s) and s[j] == "#":
        hashes += 1
        j += 1
    if j >= len(s) or s[j] != '"':
        return None
    end = s.find('"' + "#" * hashes, j + 1)
    return len(s) if end == -1 else end + 1 + hashes


def match_close(s, i):
    """s[i] is one of ([{ ; return index of the matching closer."""
    pairs = {"(": ")", "[": "]", "{": "}"}
    stack = []
    n = len(s)
    while i < n:
        c = s[i]
        if c == "/" and s.startswith("//", i):
            j = s.find("\n", i)
            i = n if j == -1 else j
            continue
        if c == "/" and s.startswith("/*", i):
            j = s.find("*/", i)
            i = n if j == -1 else j + 2
            continue
        if c == '"':
            i = _skip_string(s, i)
            continue
        if c == "r" and i + 1 < n and s[i + 1] in '#"' and (i == 0 or not (s[i - 1].isalnum() or s[i - 1] == "_")):
            j = _skip_raw_string(s, i)
            if j is not None:
                i = j
                continue
        if c == "b" and i + 1 < n and s[i + 1] == '"':
            i = _skip_string(s, i + 1)
            continue
        if c == "'":
            # char literal or lifetime
            m = re.match(r"'(\\.[^']*|[^'\\])'", s[i:])
            if m:
                i += m.end()
                continue
            i += 1
            continue
        if c in pairs:
            stack.append(pairs[c])
        elif c in ")]}":
            if not stack or stack[-1] != c:
                raise LostAnchor("unbalanced delimiter at offset %d" % i)
            stack.pop()
            if not stack:
                return i
        i += 1
    raise LostAnchor("unterminated delimiter")


def _find_fn(src, name, after=None, nth=0):
    start = 0
    if after:
        m = re.search(after, src)
        if not m:
            raise LostAnchor("anchor %r not found" % after)
        start = m.end()
    rx = re.compile(r"\bfn\s+%s\s*(<|\()" % re.escape(name))
    pos = start
    for _ in range(nth + 1):
        m = rx.search(src, pos)
        if not m:
            raise LostAnchor("fn %s not found" % name)
        pos = m.end()
    # find the body's opening brace: first '{' at depth 0 after the signature
    i = m.end() - 1
    # skip generics / params / where clause until '{' at paren depth 0
    depth = 0
    n = len(src)
    angle = 0
    while i < n:
        c = src[i]
        if c in "([":
            i = match_close(src, i) + 1
            continue
        if c == "{" and depth == 0:
            break
        if c == ";" and depth == 0:
            raise LostAnchor("fn %s has no body" % name)
        i += 1
    close = match_close(src, i)
    # item start: back up over attributes/visibility on preceding lines is not needed for bodies
    sig_start = src.rfind("\n", 0, m.start()) + 1
    return sig_start, i, close


def fn_body(src, name, after=None, nth=0):
    _, o, c = _find_fn(src, name, after, nth)
    return src[o + 1:c]


def fn_item(src, name, after=None, nth=0):
    s, o, c = _find_fn(src, name, after, nth)
    return src[s:c + 1]


def fn_signature(src, name, after=None, nth=0):
    s, o, c = _find_fn(src, name, after, nth)
    return src[s:o].strip()


def between(src, start_rx, end_rx, include_start=False, include_end=False):
    m = re.search(start_rx, src)
    if not m:
        raise LostAnchor("start anchor %r not found" % start_rx)
    e = re.compile(end_rx).search(src, m.end())
    if not e:
        raise LostAnchor("end anchor %r not found" % end_rx)
    a = m.start() if include_start else m.end()
    b = e.end() if include_end else e.start()
    return src[a:b]


def item(src, start_rx):
    """An item (struct/enum/impl/const/fn) starting at the anchor and running to
    the end of its first top-level brace block or semicolon."""
    m = re.search(start_rx, src)
    if not m:
        raise LostAnchor("item anchor %r not found" % start_rx)
    i = m.start()
    n = len(src)
    j = m.end()
    while j < n:
        c = src[j]
        if c in "([":
            j = match_close(src, j) + 1
            continue
        if c == "{":
            return src[i:match_close(src, j) + 1]
        if c == ";":
            return src[i:j + 1]
        j += 1
    raise LostAnchor("item at %r unterminated" % start_rx)


def drop_macros(text, prefixes=("tracing::",)):
    """Remove `prefix...!( ... );` statement macros.  Returns (text, [dropped])."""
    dropped = []
    out = []
    i = 0
    rx = re.compile(r"(?:%s)\w+!\s*\(" % "|".join(re.escape(p) for p in prefixes))
    while True:
        m = rx.search(text, i)
        if not m:
            out.append(text[i:])
            break
        close = match_close(text, m.end() - 1)
        j = close + 1
        # swallow optional trailing semicolon
        k = j
        while k < len(text) and text[k] in " \t":
            k += 1
        if k < len(text) and text[k] == ";":
            j = k + 1
            repl = ""
        else:
            repl = "()"  # macro in expression position evaluates to ()
        out.append(text[i:m.start()])
        out.append(repl)
        dropped.append(re.sub(r"\s+", " ", text[m.start():close + 1])[:160])
        i = j
    return "".join(out), dropped


def sha(text):
    return hashlib.sha256(text.encode()).hexdigest()
