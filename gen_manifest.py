#!/usr/bin/env python3
"""Regenerate MANIFEST.json from units/*/unit.json + na.json (+ repo hook commits)."""
import json, os, subprocess
H = os.path.dirname(os.path.abspath(__file__))
props = [json.loads(l) for l in open(os.path.join(H, "properties.jsonl"))]
na = json.load(open(os.path.join(H, "na.json")))
checks, nas = [], []
for p in props:
    pid = p["id"]
    up = os.path.join(H, "units", pid, "unit.json")
    if os.path.exists(up) and not json.load(open(up)).get("disabled"):
        u = json.load(open(up))
        backs = sorted({g.get("backend", "kani") for g in u["groups"] if not g.get("disabled")})
        kinds = {}
        for g in u["groups"]:
            if g.get("disabled"):
                continue
            for o in g["obligations"]:
                if o.get("tier") == "parked":
                    continue
                kinds[o["kind"]] = kinds.get(o["kind"], 0) + 1
        level = u.get("level", "proof")
        checks.append({
            "property_id": pid,
            "quick_cmd": "./check %s --tier quick" % pid,
            "thorough_cmd": "./check %s --tier thorough" % pid,
            "evidence_file": "evidence/%s.json" % pid,
            "replay_cmd_template": "./check --replay {path}",
            "engine": "contracts",
            "level_claimed": {
                "category": level,
                "text": u.get("level_text", ""),
                "design_ref": "DESIGN.md §4 " + pid,
            },
            "level_note": u.get("level_note", "; ".join(u.get("trusted_base", []))[:900]),
            "technique": u.get("technique", "contract-based deductive verification: %s on the real functions (%s)" % (
                " + ".join("Kani function contracts / contract harnesses (CBMC)" if b == "kani" else "Verus on mechanically extracted text" for b in backs),
                ", ".join("%d %s" % (v, k) for k, v in sorted(kinds.items())))),
        })
    else:
        nas.append({"property_id": pid, "reason": na.get(pid, "planned in DESIGN.md §3 but the unit is not built yet; not claimed until it is")})
commits = subprocess.run(["git", "-C", "/repo", "log", "--format=%h %s", "--grep=^verif hooks"], capture_output=True, text=True).stdout.strip().splitlines()
m = {
    "version": 1,
    "setup_cmd": "./check --setup",
    "hooks": {
        "guard": "cfg(kani)",
        "enable": "cargo kani sets --cfg kani (nothing else does); checks run `cargo kani -p <crate>` on a fresh rsync copy of /repo's working tree with LIBP2P_VERIF=/verif so the `#[cfg(kani)] include!` hook lines pull the contracts/harnesses from /verif/units",
        "baseline_off_cmd": "cd /repo && cargo nextest run --workspace --no-fail-fast --tool-config-file pb:/w/lib/nextest.toml --profile pb --test-threads 8 --offline",
        "source_commits": [c.split()[0] for c in commits],
        "add_only": True,
    },
    "engines": [{"name": "contracts", "path": "check", "serves_properties": [c["property_id"] for c in checks],
                 "kind_free_text": "driver: rsync /repo -> scratch, cargo kani (function contracts, proof_for_contract, stub_verified, contract harnesses) per unit, Verus single-file on extracted functions; classification exit 0/1/2; native counterexample playback"}],
    "checks": checks,
    "not_applicable": nas,
    "notes": "Exit 2 (UNDECIDED) is used for tool limits / lost anchors on changed trees; never on the unchanged tree. See DESIGN.md.",
}
json.dump(m, open(os.path.join(H, "MANIFEST.json"), "w"), indent=1)
print("checks:", len(checks), "na:", len(nas))
