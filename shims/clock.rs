// A controllable clock for harnesses: `Instant::now` is stubbed
// (`#[kani::stub(std::time::Instant::now, clock::now)]`; web_time::Instant is
// std's on native targets) by a value the harness sets.  Instants are built as
// ZERO + Duration, where ZERO is the all-zero Instant (tv_sec = 0, tv_nsec = 0),
// so every Instant a harness creates is a valid value of the real type.
#[allow(dead_code)]
pub(crate) mod clock {
    use std::time::{Duration, Instant};
    // Distinctive, non-zero initial values: Kani 0.68 deduplicated the std constant
    // `RawVecInner::ZERO_CAP` (8 zero bytes) onto a `static mut NOW_SECS: u64 = 0`, so that
    // after `clock::set(s, _)` every later `Vec::new()` had capacity `s` (seen in a C43
    // harness: dealloc of a dangling pointer).  No constant has these bytes; every harness
    // sets the clock before reading it.
    static mut NOW_SECS: u64 = 0x5EED_C10C_5EED_C10C;
    static mut NOW_NANOS: u32 = 0x0C10_C5ED;

    pub(crate) fn zero() -> Instant {
        unsafe { std::mem::zeroed() }
    }
    pub(crate) fn at(secs: u64, nanos: u32) -> Instant {
        zero() + Duration::new(secs, nanos)
    }
    pub(crate) fn now() -> Instant {
        unsafe { at(NOW_SECS, NOW_NANOS) }
    }
    pub(crate) fn set(secs: u64, nanos: u32) {
        unsafe {
            NOW_SECS = secs;
            NOW_NANOS = nanos;
        }
    }
    /// arbitrary current time, bounded so that adding u32 seconds never overflows
    pub(crate) fn set_any(max_secs: u64) -> (u64, u32) {
        let s: u64 = kani::any();
        let n: u32 = kani::any();
        kani::assume(s <= max_secs);
        kani::assume(n < 1_000_000_000);
        set(s, n);
        (s, n)
    }
    pub(crate) fn any_instant(max_secs: u64) -> (u64, u32, Instant) {
        let s: u64 = kani::any();
        let n: u32 = kani::any();
        kani::assume(s <= max_secs);
        kani::assume(n < 1_000_000_000);
        (s, n, at(s, n))
    }
}
