// Dependency shim (DESIGN §2.4): verification-friendly stand-ins for
// std::collections::{HashMap, HashSet} (and, by alias, fnv::FnvHashMap/FnvHashSet,
// nohash IntMap).  hashbrown's control-byte groups + SipHash do not terminate
// under CBMC; these are fixed-capacity arrays with linear search by `Eq`, no heap.
//
// ASSUMED CONTRACT replaced by this file: "std HashMap/HashSet implement a finite
// map / finite set keyed by Eq; iteration visits every entry exactly once in an
// unspecified order".  Insertion takes the first free slot (keeps membership
// queries cheap for the solver); the unspecified order is modelled at iteration
// time: iter()/keys()/values()/into_iter()/drain() start at a NONDETERMINISTIC
// rotation of the slot array, so no proof can depend on one particular order
// (iter_mut/values_mut/retain visit in slot order).
// Exceeding CAP entries panics with a marker the driver reports as UNDECIDED
// (never as a violation); harnesses keep states below CAP by an explicit assume.
#![allow(dead_code, clippy::all)]

use std::borrow::Borrow;
use std::marker::PhantomData;

pub const CAP: usize = 4;
const _: () = assert!(CAP == 4); // cell()/cell_mut() enumerate the cells

/// Address cell `i` through a case split, so that every access is to a CONCRETE
/// array element even when `i` is symbolic (the result of a search, a rotation).
/// Measured reason (Kani 0.68 / CBMC 6.11): `slots[i]` with a symbolic `i` on
/// cells whose `None` is niche-encoded at a non-zero offset (e.g.
/// `Option<(PeerId, HashSet<ConnectionId>)>`, niche = tag of the nested set's first
/// cell) produced spurious "unreachable code" counterexamples that the native
/// replay rejects; see units/C52 shim_selftest_peer_key_two_entries.  Cells with an
/// explicit tag (e.g. `Option<PeerId>`, `Option<(PeerId, u64)>`) were never affected
/// and keep plain indexing; the choice is a compile-time constant.
fn niche_encoded<X>() -> bool {
    // `None` lives inside X's bytes exactly when the Option adds no tag of its own
    std::mem::size_of::<Option<X>>() == std::mem::size_of::<X>()
}
fn cell<X>(slots: &[Option<X>; CAP], i: usize) -> &Option<X> {
    if !niche_encoded::<X>() {
        return &slots[i]; // explicit tag: plain indexing is read correctly (and is much cheaper)
    }
    match i {
        0 => &slots[0],
        1 => &slots[1],
        2 => &slots[2],
        3 => &slots[3],
        _ => overflow(),
    }
}
fn cell_mut<X>(slots: &mut [Option<X>; CAP], i: usize) -> &mut Option<X> {
    if !niche_encoded::<X>() {
        return &mut slots[i];
    }
    match i {
        0 => &mut slots[0],
        1 => &mut slots[1],
        2 => &mut slots[2],
        3 => &mut slots[3],
        _ => overflow(),
    }
}

fn overflow() -> ! {
    panic!("verif shim capacity exceeded")
}

fn pick_free<T>(slots: &[Option<T>; CAP]) -> usize {
    let mut any_free = false;
    let mut i = 0;
    while i < CAP {
        if slots[i].is_none() {
            any_free = true;
        }
        i += 1;
    }
    if !any_free {
        overflow();
    }
    let mut k = 0;
    while k < CAP {
        if slots[k].is_none() {
            return k;
        }
        k += 1;
    }
    overflow()
}

fn any_rotation() -> usize {
    let r: usize = kani::any();
    kani::assume(r < CAP);
    r
}

// ---------------------------------------------------------------------------
pub struct HashMap<K, V, S = ()> {
    pub slots: [Option<(K, V)>; CAP],
    _s: PhantomData<S>,
}

impl<K, V, S> Default for HashMap<K, V, S> {
    fn default() -> Self {
        HashMap { slots: [const { None }; CAP], _s: PhantomData }
    }
}

impl<K: Clone, V: Clone, S> Clone for HashMap<K, V, S> {
    fn clone(&self) -> Self {
        let mut m = Self::default();
        let mut i = 0;
        while i < CAP {
            m.slots[i] = self.slots[i].clone();
            i += 1;
        }
        m
    }
}

impl<K: std::fmt::Debug, V: std::fmt::Debug, S> std::fmt::Debug for HashMap<K, V, S> {
    fn fmt(&self, f: &mut std::fmt::Formatter<'_>) -> std::fmt::Result {
        f.write_str("HashMap{..}")
    }
}

impl<K, V, S> HashMap<K, V, S> {
    pub fn new() -> Self {
        Self::default()
    }
    pub fn with_capacity(_n: usize) -> Self {
        Self::default()
    }
    pub fn with_hasher(_s: S) -> Self {
        Self::default()
    }
    pub fn with_capacity_and_hasher(_n: usize, _s: S) -> Self {
        Self::default()
    }
    pub fn len(&self) -> usize {
        let mut n = 0;
        let mut i = 0;
        while i < CAP {
            if self.slots[i].is_some() {
                n += 1;
            }
            i += 1;
        }
        n
    }
    pub fn is_empty(&self) -> bool {
        self.len() == 0
    }
    pub fn clear(&mut self) {
        let mut i = 0;
        while i < CAP {
            self.slots[i] = None;
            i += 1;
        }
    }
    pub fn iter(&self) -> Iter<'_, K, V> {
        Iter { slots: &self.slots, pos: 0, rot: any_rotation() }
    }
    pub fn iter_mut(&mut self) -> IterMut<'_, K, V> {
        IterMut { inner: self.slots.iter_mut() }
    }
    pub fn keys(&self) -> Keys<'_, K, V> {
        Keys { it: self.iter() }
    }
    pub fn values(&self) -> Values<'_, K, V> {
        Values { it: self.iter() }
    }
    pub fn values_mut(&mut self) -> ValuesMut<'_, K, V> {
        ValuesMut { it: self.iter_mut() }
    }
    pub fn into_keys(self) -> impl Iterator<Item = K> {
        self.into_iter().map(|(k, _)| k)
    }
    pub fn into_values(self) -> impl Iterator<Item = V> {
        self.into_iter().map(|(_, v)| v)
    }
    pub fn retain(&mut self, mut f: impl FnMut(&K, &mut V) -> bool) {
        let mut i = 0;
        while i < CAP {
            let keep = match &mut self.slots[i] {
                Some((k, v)) => f(k, v),
                None => true,
            };
            if !keep {
                self.slots[i] = None;
            }
            i += 1;
        }
    }
    pub fn drain(&mut self) -> IntoIter<K, V> {
        let taken = std::mem::replace(&mut self.slots, [const { None }; CAP]);
        IntoIter { slots: taken, pos: 0, rot: any_rotation() }
    }
    pub fn reserve(&mut self, _n: usize) {}
    pub fn shrink_to_fit(&mut self) {}
    pub fn capacity(&self) -> usize {
        CAP
    }
}

impl<K: Eq, V, S> HashMap<K, V, S> {
    fn find<Q: ?Sized + Eq>(&self, k: &Q) -> Option<usize>
    where
        K: Borrow<Q>,
    {
        let mut i = 0;
        while i < CAP {
            if let Some((kk, _)) = &self.slots[i] {
                if kk.borrow() == k {
                    return Some(i);
                }
            }
            i += 1;
        }
        None
    }
    pub fn insert(&mut self, k: K, v: V) -> Option<V> {
        match self.find(&k) {
            Some(i) => {
                let slot = cell_mut(&mut self.slots, i).as_mut().unwrap();
                Some(std::mem::replace(&mut slot.1, v))
            }
            None => {
                let i = pick_free(&self.slots);
                *cell_mut(&mut self.slots, i) = Some((k, v));
                None
            }
        }
    }
    pub fn get<Q: ?Sized + Eq>(&self, k: &Q) -> Option<&V>
    where
        K: Borrow<Q>,
    {
        match self.find(k) {
            Some(i) => cell(&self.slots, i).as_ref().map(|(_, v)| v),
            None => None,
        }
    }
    pub fn get_key_value<Q: ?Sized + Eq>(&self, k: &Q) -> Option<(&K, &V)>
    where
        K: Borrow<Q>,
    {
        match self.find(k) {
            Some(i) => cell(&self.slots, i).as_ref().map(|(k, v)| (k, v)),
            None => None,
        }
    }
    pub fn get_mut<Q: ?Sized + Eq>(&mut self, k: &Q) -> Option<&mut V>
    where
        K: Borrow<Q>,
    {
        match self.find(k) {
            Some(i) => cell_mut(&mut self.slots, i).as_mut().map(|(_, v)| v),
            None => None,
        }
    }
    pub fn contains_key<Q: ?Sized + Eq>(&self, k: &Q) -> bool
    where
        K: Borrow<Q>,
    {
        self.find(k).is_some()
    }
    pub fn remove<Q: ?Sized + Eq>(&mut self, k: &Q) -> Option<V>
    where
        K: Borrow<Q>,
    {
        match self.find(k) {
            Some(i) => cell_mut(&mut self.slots, i).take().map(|(_, v)| v),
            None => None,
        }
    }
    pub fn remove_entry<Q: ?Sized + Eq>(&mut self, k: &Q) -> Option<(K, V)>
    where
        K: Borrow<Q>,
    {
        match self.find(k) {
            Some(i) => cell_mut(&mut self.slots, i).take(),
            None => None,
        }
    }
    pub fn entry(&mut self, k: K) -> hash_map::Entry<'_, K, V> {
        match self.find(&k) {
            Some(i) => hash_map::Entry::Occupied(hash_map::OccupiedEntry { slot: cell_mut(&mut self.slots, i), key: k }),
            None => {
                let i = pick_free(&self.slots);
                hash_map::Entry::Vacant(hash_map::VacantEntry { slot: cell_mut(&mut self.slots, i), key: k })
            }
        }
    }
}

impl<K: Eq, V, S> Extend<(K, V)> for HashMap<K, V, S> {
    fn extend<I: IntoIterator<Item = (K, V)>>(&mut self, it: I) {
        for (k, v) in it {
            self.insert(k, v);
        }
    }
}

impl<K: Eq, V, S> FromIterator<(K, V)> for HashMap<K, V, S> {
    fn from_iter<I: IntoIterator<Item = (K, V)>>(it: I) -> Self {
        let mut m = Self::default();
        m.extend(it);
        m
    }
}

impl<K: Eq, V, S, Q: ?Sized + Eq> std::ops::Index<&Q> for HashMap<K, V, S>
where
    K: Borrow<Q>,
{
    type Output = V;
    fn index(&self, k: &Q) -> &V {
        self.get(k).expect("no entry found for key")
    }
}

impl<K: Eq, V: PartialEq, S> PartialEq for HashMap<K, V, S> {
    fn eq(&self, o: &Self) -> bool {
        if self.len() != o.len() {
            return false;
        }
        let mut i = 0;
        while i < CAP {
            if let Some((k, v)) = &self.slots[i] {
                if o.get(k) != Some(v) {
                    return false;
                }
            }
            i += 1;
        }
        true
    }
}
impl<K: Eq, V: Eq, S> Eq for HashMap<K, V, S> {}

pub struct Iter<'a, K, V> {
    slots: &'a [Option<(K, V)>; CAP],
    pos: usize,
    rot: usize,
}
impl<'a, K, V> Iterator for Iter<'a, K, V> {
    type Item = (&'a K, &'a V);
    fn next(&mut self) -> Option<Self::Item> {
        while self.pos < CAP {
            let p = (self.pos + self.rot) % CAP;
            self.pos += 1;
            if let Some((k, v)) = cell(self.slots, p) {
                return Some((k, v));
            }
        }
        None
    }
}
impl<'a, K, V> Clone for Iter<'a, K, V> {
    fn clone(&self) -> Self {
        Iter { slots: self.slots, pos: self.pos, rot: self.rot }
    }
}
pub struct IterMut<'a, K, V> {
    inner: std::slice::IterMut<'a, Option<(K, V)>>,
}
impl<'a, K, V> Iterator for IterMut<'a, K, V> {
    type Item = (&'a K, &'a mut V);
    fn next(&mut self) -> Option<Self::Item> {
        loop {
            match self.inner.next() {
                None => return None,
                Some(Some((k, v))) => return Some((&*k, v)),
                Some(None) => {}
            }
        }
    }
}
pub struct Keys<'a, K, V> {
    it: Iter<'a, K, V>,
}
impl<'a, K, V> Iterator for Keys<'a, K, V> {
    type Item = &'a K;
    fn next(&mut self) -> Option<&'a K> {
        self.it.next().map(|(k, _)| k)
    }
}
impl<'a, K, V> Clone for Keys<'a, K, V> {
    fn clone(&self) -> Self {
        Keys { it: self.it.clone() }
    }
}
pub struct Values<'a, K, V> {
    it: Iter<'a, K, V>,
}
impl<'a, K, V> Iterator for Values<'a, K, V> {
    type Item = &'a V;
    fn next(&mut self) -> Option<&'a V> {
        self.it.next().map(|(_, v)| v)
    }
}
pub struct ValuesMut<'a, K, V> {
    it: IterMut<'a, K, V>,
}
impl<'a, K, V> Iterator for ValuesMut<'a, K, V> {
    type Item = &'a mut V;
    fn next(&mut self) -> Option<&'a mut V> {
        self.it.next().map(|(_, v)| v)
    }
}
pub struct IntoIter<K, V> {
    slots: [Option<(K, V)>; CAP],
    pos: usize,
    rot: usize,
}
impl<K, V> Iterator for IntoIter<K, V> {
    type Item = (K, V);
    fn next(&mut self) -> Option<(K, V)> {
        while self.pos < CAP {
            let p = (self.pos + self.rot) % CAP;
            self.pos += 1;
            if let Some(x) = cell_mut(&mut self.slots, p).take() {
                return Some(x);
            }
        }
        None
    }
}
impl<K, V, S> IntoIterator for HashMap<K, V, S> {
    type Item = (K, V);
    type IntoIter = IntoIter<K, V>;
    fn into_iter(self) -> IntoIter<K, V> {
        IntoIter { slots: self.slots, pos: 0, rot: any_rotation() }
    }
}
impl<'a, K, V, S> IntoIterator for &'a HashMap<K, V, S> {
    type Item = (&'a K, &'a V);
    type IntoIter = Iter<'a, K, V>;
    fn into_iter(self) -> Iter<'a, K, V> {
        self.iter()
    }
}
impl<'a, K, V, S> IntoIterator for &'a mut HashMap<K, V, S> {
    type Item = (&'a K, &'a mut V);
    type IntoIter = IterMut<'a, K, V>;
    fn into_iter(self) -> IterMut<'a, K, V> {
        self.iter_mut()
    }
}

pub mod hash_map {
    pub use super::{HashMap, IntoIter, Iter, IterMut, Keys, Values, ValuesMut};

    pub enum Entry<'a, K, V> {
        Occupied(OccupiedEntry<'a, K, V>),
        Vacant(VacantEntry<'a, K, V>),
    }
    pub struct OccupiedEntry<'a, K, V> {
        pub slot: &'a mut Option<(K, V)>,
        pub key: K,
    }
    pub struct VacantEntry<'a, K, V> {
        pub slot: &'a mut Option<(K, V)>,
        pub key: K,
    }
    impl<'a, K, V> Entry<'a, K, V> {
        pub fn or_insert(self, v: V) -> &'a mut V {
            match self {
                Entry::Occupied(o) => o.into_mut(),
                Entry::Vacant(e) => e.insert(v),
            }
        }
        pub fn or_insert_with(self, f: impl FnOnce() -> V) -> &'a mut V {
            match self {
                Entry::Occupied(o) => o.into_mut(),
                Entry::Vacant(e) => e.insert(f()),
            }
        }
        pub fn or_default(self) -> &'a mut V
        where
            V: Default,
        {
            self.or_insert_with(V::default)
        }
        pub fn and_modify(mut self, f: impl FnOnce(&mut V)) -> Self {
            if let Entry::Occupied(o) = &mut self {
                f(o.get_mut());
            }
            self
        }
        pub fn key(&self) -> &K {
            match self {
                Entry::Occupied(o) => o.key(),
                Entry::Vacant(e) => &e.key,
            }
        }
    }
    impl<'a, K, V> OccupiedEntry<'a, K, V> {
        pub fn key(&self) -> &K {
            &self.slot.as_ref().unwrap().0
        }
        pub fn get(&self) -> &V {
            &self.slot.as_ref().unwrap().1
        }
        pub fn get_mut(&mut self) -> &mut V {
            &mut self.slot.as_mut().unwrap().1
        }
        pub fn into_mut(self) -> &'a mut V {
            &mut self.slot.as_mut().unwrap().1
        }
        pub fn insert(&mut self, v: V) -> V {
            std::mem::replace(self.get_mut(), v)
        }
        pub fn remove(self) -> V {
            self.slot.take().unwrap().1
        }
        pub fn remove_entry(self) -> (K, V) {
            self.slot.take().unwrap()
        }
    }
    impl<'a, K, V> VacantEntry<'a, K, V> {
        pub fn key(&self) -> &K {
            &self.key
        }
        pub fn into_key(self) -> K {
            self.key
        }
        pub fn insert(self, v: V) -> &'a mut V {
            *self.slot = Some((self.key, v));
            &mut self.slot.as_mut().unwrap().1
        }
    }
}

// ---------------------------------------------------------------------------
pub struct HashSet<T, S = ()> {
    pub slots: [Option<T>; CAP],
    _s: PhantomData<S>,
}

impl<T, S> Default for HashSet<T, S> {
    fn default() -> Self {
        HashSet { slots: [const { None }; CAP], _s: PhantomData }
    }
}
impl<T: Clone, S> Clone for HashSet<T, S> {
    fn clone(&self) -> Self {
        let mut m = Self::default();
        let mut i = 0;
        while i < CAP {
            m.slots[i] = self.slots[i].clone();
            i += 1;
        }
        m
    }
}
impl<T, S> std::fmt::Debug for HashSet<T, S> {
    fn fmt(&self, f: &mut std::fmt::Formatter<'_>) -> std::fmt::Result {
        f.write_str("HashSet{..}")
    }
}
impl<T, S> HashSet<T, S> {
    pub fn new() -> Self {
        Self::default()
    }
    pub fn with_capacity(_n: usize) -> Self {
        Self::default()
    }
    pub fn with_hasher(_s: S) -> Self {
        Self::default()
    }
    pub fn len(&self) -> usize {
        let mut n = 0;
        let mut i = 0;
        while i < CAP {
            if self.slots[i].is_some() {
                n += 1;
            }
            i += 1;
        }
        n
    }
    pub fn is_empty(&self) -> bool {
        self.len() == 0
    }
    pub fn clear(&mut self) {
        let mut i = 0;
        while i < CAP {
            self.slots[i] = None;
            i += 1;
        }
    }
    pub fn iter(&self) -> SetIter<'_, T> {
        SetIter { slots: &self.slots, pos: 0, rot: any_rotation() }
    }
    pub fn retain(&mut self, mut f: impl FnMut(&T) -> bool) {
        let mut i = 0;
        while i < CAP {
            let keep = match &self.slots[i] {
                Some(x) => f(x),
                None => true,
            };
            if !keep {
                self.slots[i] = None;
            }
            i += 1;
        }
    }
    pub fn drain(&mut self) -> SetIntoIter<T> {
        let taken = std::mem::replace(&mut self.slots, [const { None }; CAP]);
        SetIntoIter { slots: taken, pos: 0, rot: any_rotation() }
    }
    pub fn reserve(&mut self, _n: usize) {}
}
impl<T: Eq, S> HashSet<T, S> {
    fn find<Q: ?Sized + Eq>(&self, k: &Q) -> Option<usize>
    where
        T: Borrow<Q>,
    {
        let mut i = 0;
        while i < CAP {
            if let Some(x) = &self.slots[i] {
                if x.borrow() == k {
                    return Some(i);
                }
            }
            i += 1;
        }
        None
    }
    pub fn insert(&mut self, x: T) -> bool {
        if self.find(&x).is_some() {
            return false;
        }
        let i = pick_free(&self.slots);
        *cell_mut(&mut self.slots, i) = Some(x);
        true
    }
    pub fn replace(&mut self, x: T) -> Option<T> {
        match self.find(&x) {
            Some(i) => cell_mut(&mut self.slots, i).replace(x),
            None => {
                let i = pick_free(&self.slots);
                *cell_mut(&mut self.slots, i) = Some(x);
                None
            }
        }
    }
    pub fn contains<Q: ?Sized + Eq>(&self, k: &Q) -> bool
    where
        T: Borrow<Q>,
    {
        self.find(k).is_some()
    }
    pub fn get<Q: ?Sized + Eq>(&self, k: &Q) -> Option<&T>
    where
        T: Borrow<Q>,
    {
        match self.find(k) {
            Some(i) => cell(&self.slots, i).as_ref(),
            None => None,
        }
    }
    pub fn remove<Q: ?Sized + Eq>(&mut self, k: &Q) -> bool
    where
        T: Borrow<Q>,
    {
        match self.find(k) {
            Some(i) => {
                *cell_mut(&mut self.slots, i) = None;
                true
            }
            None => false,
        }
    }
    pub fn take<Q: ?Sized + Eq>(&mut self, k: &Q) -> Option<T>
    where
        T: Borrow<Q>,
    {
        match self.find(k) {
            Some(i) => cell_mut(&mut self.slots, i).take(),
            None => None,
        }
    }
    pub fn is_subset(&self, o: &HashSet<T, S>) -> bool {
        self.iter().all(|x| o.contains(x))
    }
    pub fn difference<'a>(&'a self, o: &'a HashSet<T, S>) -> impl Iterator<Item = &'a T> {
        self.iter().filter(move |x| !o.contains(*x))
    }
    pub fn intersection<'a>(&'a self, o: &'a HashSet<T, S>) -> impl Iterator<Item = &'a T> {
        self.iter().filter(move |x| o.contains(*x))
    }
    pub fn union<'a>(&'a self, o: &'a HashSet<T, S>) -> impl Iterator<Item = &'a T> {
        self.iter().chain(o.iter().filter(move |x| !self.contains(*x)))
    }
}
impl<T: Eq, S> Extend<T> for HashSet<T, S> {
    fn extend<I: IntoIterator<Item = T>>(&mut self, it: I) {
        for x in it {
            self.insert(x);
        }
    }
}
impl<'a, T: Eq + Copy + 'a, S> Extend<&'a T> for HashSet<T, S> {
    fn extend<I: IntoIterator<Item = &'a T>>(&mut self, it: I) {
        for x in it {
            self.insert(*x);
        }
    }
}
impl<T: Eq, S> FromIterator<T> for HashSet<T, S> {
    fn from_iter<I: IntoIterator<Item = T>>(it: I) -> Self {
        let mut m = Self::default();
        m.extend(it);
        m
    }
}
impl<T: Eq, S> PartialEq for HashSet<T, S> {
    fn eq(&self, o: &Self) -> bool {
        self.len() == o.len() && self.is_subset(o)
    }
}
impl<T: Eq, S> Eq for HashSet<T, S> {}

pub struct SetIter<'a, T> {
    slots: &'a [Option<T>; CAP],
    pos: usize,
    rot: usize,
}
impl<'a, T> Iterator for SetIter<'a, T> {
    type Item = &'a T;
    fn next(&mut self) -> Option<&'a T> {
        while self.pos < CAP {
            let p = (self.pos + self.rot) % CAP;
            self.pos += 1;
            if let Some(x) = cell(self.slots, p) {
                return Some(x);
            }
        }
        None
    }
}
impl<'a, T> Clone for SetIter<'a, T> {
    fn clone(&self) -> Self {
        SetIter { slots: self.slots, pos: self.pos, rot: self.rot }
    }
}
/// (added for C12: `ListenAddresses::iter` returns `impl ExactSizeIterator`)
impl<'a, T> ExactSizeIterator for SetIter<'a, T> {
    fn len(&self) -> usize {
        let mut n = 0;
        let mut pos = self.pos;
        while pos < CAP {
            if cell(self.slots, (pos + self.rot) % CAP).is_some() {
                n += 1;
            }
            pos += 1;
        }
        n
    }
}
pub struct SetIntoIter<T> {
    slots: [Option<T>; CAP],
    pos: usize,
    rot: usize,
}
impl<T> Iterator for SetIntoIter<T> {
    type Item = T;
    fn next(&mut self) -> Option<T> {
        while self.pos < CAP {
            let p = (self.pos + self.rot) % CAP;
            self.pos += 1;
            if let Some(x) = cell_mut(&mut self.slots, p).take() {
                return Some(x);
            }
        }
        None
    }
}
impl<T, S> IntoIterator for HashSet<T, S> {
    type Item = T;
    type IntoIter = SetIntoIter<T>;
    fn into_iter(self) -> SetIntoIter<T> {
        SetIntoIter { slots: self.slots, pos: 0, rot: any_rotation() }
    }
}
impl<'a, T, S> IntoIterator for &'a HashSet<T, S> {
    type Item = &'a T;
    type IntoIter = SetIter<'a, T>;
    fn into_iter(self) -> SetIter<'a, T> {
        self.iter()
    }
}

pub mod hash_set {
    pub use super::{HashSet, SetIntoIter as IntoIter, SetIter as Iter};
}

pub type FnvHashMap<K, V> = HashMap<K, V, ()>;
pub type FnvHashSet<T> = HashSet<T, ()>;

// ---------------------------------------------------------------------------
// hashlink::LruCache stand-in: bounded map that evicts the least-recently-used
// entry on insert when full; get/get_mut/insert mark an entry most-recently used;
// iter() runs from least- to most-recently used (hashlink's order).
// ASSUMED CONTRACT replaced: hashlink::LruCache implements exactly that.
pub struct LruCache<K, V> {
    // slots[0] is the least recently used live entry; entries are kept compact
    slots: [Option<(K, V)>; CAP],
    cap: usize,
}

impl<K, V> std::fmt::Debug for LruCache<K, V> {
    fn fmt(&self, f: &mut std::fmt::Formatter<'_>) -> std::fmt::Result {
        f.write_str("LruCache{..}")
    }
}

impl<K: Eq, V> LruCache<K, V> {
    pub fn new(capacity: usize) -> Self {
        // capacities above CAP behave like CAP for eviction purposes only if a
        // harness fills the shim completely; that is reported as capacity exceeded
        LruCache { slots: [const { None }; CAP], cap: capacity }
    }
    pub fn len(&self) -> usize {
        let mut n = 0;
        while n < CAP && self.slots[n].is_some() {
            n += 1;
        }
        n
    }
    pub fn is_empty(&self) -> bool {
        self.slots[0].is_none()
    }
    pub fn capacity(&self) -> usize {
        self.cap
    }
    fn find<Q: ?Sized + Eq>(&self, k: &Q) -> Option<usize>
    where
        K: Borrow<Q>,
    {
        let mut i = 0;
        while i < CAP {
            if let Some((kk, _)) = &self.slots[i] {
                if kk.borrow() == k {
                    return Some(i);
                }
            }
            i += 1;
        }
        None
    }
    /// remove slot i keeping the others compact and in order
    fn take_at(&mut self, i: usize) -> (K, V) {
        let e = cell_mut(&mut self.slots, i).take().unwrap();
        let mut j = 0;
        while j + 1 < CAP {
            if j >= i {
                self.slots[j] = self.slots[j + 1].take();
            }
            j += 1;
        }
        e
    }
    fn push_mru(&mut self, e: (K, V)) {
        let n = self.len();
        if n >= CAP {
            overflow();
        }
        *cell_mut(&mut self.slots, n) = Some(e);
    }
    pub fn insert(&mut self, k: K, v: V) -> Option<V> {
        match self.find(&k) {
            Some(i) => {
                let (kk, old) = self.take_at(i);
                self.push_mru((kk, v));
                Some(old)
            }
            None => {
                if self.len() >= self.cap && self.len() > 0 {
                    let _ = self.take_at(0); // evict least recently used
                }
                self.push_mru((k, v));
                None
            }
        }
    }
    pub fn get<Q: ?Sized + Eq>(&mut self, k: &Q) -> Option<&V>
    where
        K: Borrow<Q>,
    {
        match self.find(k) {
            Some(i) => {
                let e = self.take_at(i);
                self.push_mru(e);
                let n = self.len();
                cell(&self.slots, n - 1).as_ref().map(|(_, v)| v)
            }
            None => None,
        }
    }
    pub fn get_mut<Q: ?Sized + Eq>(&mut self, k: &Q) -> Option<&mut V>
    where
        K: Borrow<Q>,
    {
        match self.find(k) {
            Some(i) => {
                let e = self.take_at(i);
                self.push_mru(e);
                let n = self.len();
                cell_mut(&mut self.slots, n - 1).as_mut().map(|(_, v)| v)
            }
            None => None,
        }
    }
    pub fn peek<Q: ?Sized + Eq>(&self, k: &Q) -> Option<&V>
    where
        K: Borrow<Q>,
    {
        match self.find(k) {
            Some(i) => cell(&self.slots, i).as_ref().map(|(_, v)| v),
            None => None,
        }
    }
    pub fn contains_key<Q: ?Sized + Eq>(&self, k: &Q) -> bool
    where
        K: Borrow<Q>,
    {
        self.find(k).is_some()
    }
    pub fn remove<Q: ?Sized + Eq>(&mut self, k: &Q) -> Option<V>
    where
        K: Borrow<Q>,
    {
        match self.find(k) {
            Some(i) => Some(self.take_at(i).1),
            None => None,
        }
    }
    pub fn iter(&self) -> LruIter<'_, K, V> {
        LruIter { slots: &self.slots, pos: 0 }
    }
}

pub struct LruIter<'a, K, V> {
    slots: &'a [Option<(K, V)>; CAP],
    pos: usize,
}
impl<'a, K, V> Iterator for LruIter<'a, K, V> {
    type Item = (&'a K, &'a V);
    fn next(&mut self) -> Option<Self::Item> {
        while self.pos < CAP {
            let p = self.pos;
            self.pos += 1;
            if let Some((k, v)) = cell(self.slots, p) {
                return Some((k, v));
            }
        }
        None
    }
}

// ---------------------------------------------------------------------------
// SmallMap<K, V, N>: the same assumed finite-map contract with a capacity chosen by
// the unit (N = 2 or 3) and NO symbolic indexing at all: every operation is one
// pass over the N cells with a constant index per unrolled iteration, and cells can
// be placed directly with `from_cells`.  For maps whose values are large or hold
// `Arc`s (Multiaddr inside ConnectedPoint/PendingPoint), where the CAP=4 shim with
// its search-then-index shape exhausts CBMC's memory.  Iteration is in slot order;
// harnesses place entries in arbitrary slots, so no proof depends on the order.
pub struct SmallMap<K, V, const N: usize> {
    slots: [Option<(K, V)>; N],
}
impl<K, V, const N: usize> Default for SmallMap<K, V, N> {
    fn default() -> Self {
        SmallMap { slots: std::array::from_fn(|_| None) }
    }
}
impl<K: Eq, V, const N: usize> SmallMap<K, V, N> {
    pub fn new() -> Self {
        Self::default()
    }
    pub fn from_cells(slots: [Option<(K, V)>; N]) -> Self {
        SmallMap { slots }
    }
    pub fn len(&self) -> usize {
        let mut n = 0;
        let mut i = 0;
        while i < N {
            if self.slots[i].is_some() {
                n += 1;
            }
            i += 1;
        }
        n
    }
    pub fn is_empty(&self) -> bool {
        self.len() == 0
    }
    pub fn contains_key(&self, k: &K) -> bool {
        self.get(k).is_some()
    }
    pub fn get(&self, k: &K) -> Option<&V> {
        let mut i = 0;
        while i < N {
            if let Some((kk, v)) = &self.slots[i] {
                if kk == k {
                    return Some(v);
                }
            }
            i += 1;
        }
        None
    }
    pub fn get_mut(&mut self, k: &K) -> Option<&mut V> {
        let mut hit = N;
        let mut i = 0;
        while i < N {
            if let Some((kk, _)) = &self.slots[i] {
                if kk == k && hit == N {
                    hit = i;
                }
            }
            i += 1;
        }
        let mut j = 0;
        for s in self.slots.iter_mut() {
            if j == hit {
                return s.as_mut().map(|(_, v)| v);
            }
            j += 1;
        }
        None
    }
    pub fn insert(&mut self, k: K, v: V) -> Option<V> {
        let mut i = 0;
        while i < N {
            if let Some((kk, _)) = &self.slots[i] {
                if *kk == k {
                    return self.slots[i].replace((k, v)).map(|(_, old)| old);
                }
            }
            i += 1;
        }
        let mut j = 0;
        while j < N {
            if self.slots[j].is_none() {
                // the cell holds None: write without running drop glue for the old value (a
                // plain assignment makes CBMC explore K's and V's drop glue on a value it
                // cannot see is None: 18 GB for a cell holding a oneshot::Sender)
                unsafe { std::ptr::write(&mut self.slots[j], Some((k, v))) };
                return None;
            }
            j += 1;
        }
        overflow()
    }
    pub fn remove(&mut self, k: &K) -> Option<V> {
        let mut i = 0;
        while i < N {
            let hit = match &self.slots[i] {
                Some((kk, _)) => kk == k,
                None => false,
            };
            if hit {
                return self.slots[i].take().map(|(_, v)| v);
            }
            i += 1;
        }
        None
    }
    pub fn iter(&self) -> impl Iterator<Item = (&K, &V)> + '_ {
        self.slots.iter().filter_map(|c| c.as_ref().map(|(k, v)| (k, v)))
    }
    pub fn keys(&self) -> impl Iterator<Item = &K> + '_ {
        self.slots.iter().filter_map(|c| c.as_ref().map(|(k, _)| k))
    }
    pub fn values(&self) -> impl Iterator<Item = &V> + '_ {
        self.slots.iter().filter_map(|c| c.as_ref().map(|(_, v)| v))
    }
    pub fn values_mut(&mut self) -> impl Iterator<Item = &mut V> + '_ {
        self.slots.iter_mut().filter_map(|c| c.as_mut().map(|(_, v)| v))
    }
    pub fn entry(&mut self, k: K) -> SmallEntry<'_, K, V, N> {
        SmallEntry { map: self, key: k }
    }
}
pub struct SmallEntry<'a, K, V, const N: usize> {
    map: &'a mut SmallMap<K, V, N>,
    key: K,
}
impl<'a, K: Eq + Clone, V: Default, const N: usize> SmallEntry<'a, K, V, N> {
    pub fn or_default(self) -> &'a mut V {
        if !self.map.contains_key(&self.key) {
            self.map.insert(self.key.clone(), V::default());
        }
        self.map.get_mut(&self.key).unwrap()
    }
}

// ---------------------------------------------------------------------------
// VecDeque<T>: fixed-capacity (CAP) stand-in for std::collections::VecDeque, for
// units whose code pops/pushes a deque inside a loop (measured: with the heap
// VecDeque every unwound iteration carries the grow/realloc path and CBMC runs out
// of memory: C33 time cache, C48 refill).  ASSUMED CONTRACT replaced: "std VecDeque
// is a double-ended queue".  Elements are kept compacted at the front of the array
// and every access is at a constant index (no symbolic indexing); exceeding CAP
// panics with the capacity marker (UNDECIDED, never a violation).
pub struct VecDeque<T> {
    slots: [Option<T>; CAP],
}
impl<T> Default for VecDeque<T> {
    fn default() -> Self {
        VecDeque { slots: [None, None, None, None] }
    }
}
impl<T> VecDeque<T> {
    pub fn new() -> Self {
        Self::default()
    }
    pub fn with_capacity(_n: usize) -> Self {
        Self::default()
    }
    pub fn len(&self) -> usize {
        self.slots[0].is_some() as usize
            + self.slots[1].is_some() as usize
            + self.slots[2].is_some() as usize
            + self.slots[3].is_some() as usize
    }
    pub fn is_empty(&self) -> bool {
        self.slots[0].is_none()
    }
    pub fn clear(&mut self) {
        self.slots = [None, None, None, None];
    }
    pub fn front(&self) -> Option<&T> {
        self.slots[0].as_ref()
    }
    pub fn back(&self) -> Option<&T> {
        if self.slots[3].is_some() {
            self.slots[3].as_ref()
        } else if self.slots[2].is_some() {
            self.slots[2].as_ref()
        } else if self.slots[1].is_some() {
            self.slots[1].as_ref()
        } else {
            self.slots[0].as_ref()
        }
    }
    /// i-th element from the front (elements are compacted)
    pub fn get(&self, i: usize) -> Option<&T> {
        match i {
            0 => self.slots[0].as_ref(),
            1 => self.slots[1].as_ref(),
            2 => self.slots[2].as_ref(),
            3 => self.slots[3].as_ref(),
            _ => None,
        }
    }
    pub fn pop_front(&mut self) -> Option<T> {
        let f = self.slots[0].take();
        self.slots[0] = self.slots[1].take();
        self.slots[1] = self.slots[2].take();
        self.slots[2] = self.slots[3].take();
        f
    }
    pub fn pop_back(&mut self) -> Option<T> {
        if self.slots[3].is_some() {
            self.slots[3].take()
        } else if self.slots[2].is_some() {
            self.slots[2].take()
        } else if self.slots[1].is_some() {
            self.slots[1].take()
        } else {
            self.slots[0].take()
        }
    }
    pub fn push_front(&mut self, t: T) {
        if self.slots[3].is_some() {
            overflow()
        }
        self.slots[3] = self.slots[2].take();
        self.slots[2] = self.slots[1].take();
        self.slots[1] = self.slots[0].take();
        self.slots[0] = Some(t);
    }
    pub fn push_back(&mut self, t: T) {
        if self.slots[0].is_none() {
            self.slots[0] = Some(t);
        } else if self.slots[1].is_none() {
            self.slots[1] = Some(t);
        } else if self.slots[2].is_none() {
            self.slots[2] = Some(t);
        } else if self.slots[3].is_none() {
            self.slots[3] = Some(t);
        } else {
            overflow()
        }
    }
    /// front-to-back order (a deque's iteration order is specified, so no rotation)
    pub fn iter(&self) -> impl Iterator<Item = &T> + '_ {
        self.slots.iter().filter_map(|c| c.as_ref())
    }
}

// ---------------------------------------------------------------------------
// BTreeSet<T>: fixed-capacity (CAP) stand-in for std::collections::BTreeSet.
// ASSUMED CONTRACT replaced: "std BTreeSet is a finite set ordered by Ord".  Elements
// are kept sorted and compacted at the front of the array; every access is at a
// constant index; exceeding CAP panics with the capacity marker.
pub struct BTreeSet<T> {
    slots: [Option<T>; CAP],
}
impl<T> Default for BTreeSet<T> {
    fn default() -> Self {
        BTreeSet { slots: [None, None, None, None] }
    }
}
impl<T: Ord> BTreeSet<T> {
    pub fn new() -> Self {
        Self::default()
    }
    pub fn len(&self) -> usize {
        self.slots[0].is_some() as usize
            + self.slots[1].is_some() as usize
            + self.slots[2].is_some() as usize
            + self.slots[3].is_some() as usize
    }
    pub fn is_empty(&self) -> bool {
        self.slots[0].is_none()
    }
    pub fn contains(&self, t: &T) -> bool {
        let mut found = false;
        let mut i = 0;
        while i < CAP {
            if let Some(x) = &self.slots[i] {
                if x.cmp(t) == std::cmp::Ordering::Equal {
                    found = true;
                }
            }
            i += 1;
        }
        found
    }
    /// true if the value was not present before
    pub fn insert(&mut self, t: T) -> bool {
        if self.contains(&t) {
            return false;
        }
        if self.slots[CAP - 1].is_some() {
            overflow()
        }
        // position = number of stored elements smaller than t
        let mut p = 0;
        let mut i = 0;
        while i < CAP {
            if let Some(x) = &self.slots[i] {
                if x.cmp(&t) == std::cmp::Ordering::Less {
                    p += 1;
                }
            }
            i += 1;
        }
        // shift the tail one cell to the right, highest cell first
        let mut j = CAP - 1;
        while j > 0 {
            if j > p {
                self.slots[j] = self.slots[j - 1].take();
            }
            j -= 1;
        }
        let mut item = Some(t);
        let mut k = 0;
        while k < CAP {
            if k == p {
                self.slots[k] = item.take();
            }
            k += 1;
        }
        true
    }
    pub fn remove(&mut self, t: &T) -> bool {
        let mut hit = false;
        let mut i = 0;
        while i < CAP {
            if !hit {
                let eq = match &self.slots[i] {
                    Some(x) => x.cmp(t) == std::cmp::Ordering::Equal,
                    None => false,
                };
                if eq {
                    self.slots[i] = None;
                    hit = true;
                }
            }
            if hit && i + 1 < CAP {
                self.slots[i] = self.slots[i + 1].take();
            }
            i += 1;
        }
        hit
    }
    /// ascending order
    pub fn iter(&self) -> impl Iterator<Item = &T> + '_ {
        self.slots.iter().filter_map(|c| c.as_ref())
    }
}

// ---------------------------------------------------------------------------
// boxed::HashMap<K, V>: the same assumed finite-map contract for maps whose VALUES ARE
// LARGE (kad MemoryStore: `SmallVec<[ProviderRecord; 20]>` is 3 KB per cell).  Every
// occupied cell lives in its own heap object (`Option<Box<(K, V)>>`), so an empty cell
// is a null pointer and moving the map moves CAP pointers.  Measured reason (C41):
// with the inline-cell HashMap above, building an EMPTY MemoryStore and forgetting it
// already cost 65-85 s of symbolic execution.  No symbolic indexing: cells are
// addressed through a case split on the (possibly symbolic) search result.
// API subset: what kad's record/store/memory.rs and its harness use.
pub mod boxed {
    use super::{overflow, CAP};
    use std::marker::PhantomData;

    pub struct HashMap<K, V, S = ()> {
        pub slots: [Option<Box<(K, V)>>; CAP],
        _s: PhantomData<S>,
    }
    impl<K, V, S> Default for HashMap<K, V, S> {
        fn default() -> Self {
            HashMap { slots: [None, None, None, None], _s: PhantomData }
        }
    }
    fn cell_mut<X>(slots: &mut [Option<X>; CAP], i: usize) -> &mut Option<X> {
        match i {
            0 => &mut slots[0],
            1 => &mut slots[1],
            2 => &mut slots[2],
            3 => &mut slots[3],
            _ => overflow(),
        }
    }
    fn cell<X>(slots: &[Option<X>; CAP], i: usize) -> &Option<X> {
        match i {
            0 => &slots[0],
            1 => &slots[1],
            2 => &slots[2],
            3 => &slots[3],
            _ => overflow(),
        }
    }
    impl<K: Eq, V, S> HashMap<K, V, S> {
        pub fn new() -> Self {
            Self::default()
        }
        pub fn len(&self) -> usize {
            let mut n = 0;
            let mut i = 0;
            while i < CAP {
                if self.slots[i].is_some() {
                    n += 1;
                }
                i += 1;
            }
            n
        }
        pub fn is_empty(&self) -> bool {
            self.len() == 0
        }
        fn find(&self, k: &K) -> Option<usize> {
            let mut i = 0;
            while i < CAP {
                if let Some(b) = &self.slots[i] {
                    if b.0 == *k {
                        return Some(i);
                    }
                }
                i += 1;
            }
            None
        }
        fn free(&self) -> usize {
            let mut i = 0;
            while i < CAP {
                if self.slots[i].is_none() {
                    return i;
                }
                i += 1;
            }
            overflow()
        }
        pub fn get(&self, k: &K) -> Option<&V> {
            match self.find(k) {
                Some(i) => cell(&self.slots, i).as_ref().map(|b| &b.1),
                None => None,
            }
        }
        pub fn get_mut(&mut self, k: &K) -> Option<&mut V> {
            match self.find(k) {
                Some(i) => cell_mut(&mut self.slots, i).as_mut().map(|b| &mut b.1),
                None => None,
            }
        }
        pub fn contains_key(&self, k: &K) -> bool {
            self.find(k).is_some()
        }
        pub fn insert(&mut self, k: K, v: V) -> Option<V> {
            match self.find(&k) {
                Some(i) => {
                    let b = cell_mut(&mut self.slots, i).as_mut().unwrap();
                    Some(std::mem::replace(&mut b.1, v))
                }
                None => {
                    let i = self.free();
                    *cell_mut(&mut self.slots, i) = Some(Box::new((k, v)));
                    None
                }
            }
        }
        pub fn remove(&mut self, k: &K) -> Option<V> {
            match self.find(k) {
                Some(i) => cell_mut(&mut self.slots, i).take().map(|b| (*b).1),
                None => None,
            }
        }
        pub fn retain(&mut self, mut f: impl FnMut(&K, &mut V) -> bool) {
            let mut i = 0;
            while i < CAP {
                let keep = match &mut self.slots[i] {
                    Some(b) => {
                        let (k, v) = &mut **b;
                        f(k, v)
                    }
                    None => true,
                };
                if !keep {
                    self.slots[i] = None;
                }
                i += 1;
            }
        }
        pub fn values(&self) -> hash_map::Values<'_, K, V> {
            hash_map::Values { slots: &self.slots, next: 0 }
        }
        pub fn entry(&mut self, k: K) -> hash_map::Entry<'_, K, V> {
            match self.find(&k) {
                Some(i) => hash_map::Entry::Occupied(hash_map::OccupiedEntry { slot: cell_mut(&mut self.slots, i), key: k }),
                None => {
                    let i = self.free();
                    hash_map::Entry::Vacant(hash_map::VacantEntry { slot: cell_mut(&mut self.slots, i), key: k })
                }
            }
        }
    }
    pub mod hash_map {
        use super::CAP;
        pub use super::HashMap;
        pub enum Entry<'a, K, V> {
            Occupied(OccupiedEntry<'a, K, V>),
            Vacant(VacantEntry<'a, K, V>),
        }
        pub struct OccupiedEntry<'a, K, V> {
            pub(super) slot: &'a mut Option<Box<(K, V)>>,
            pub(super) key: K,
        }
        pub struct VacantEntry<'a, K, V> {
            pub(super) slot: &'a mut Option<Box<(K, V)>>,
            pub(super) key: K,
        }
        impl<'a, K, V> Entry<'a, K, V> {
            pub fn or_insert_with(self, f: impl FnOnce() -> V) -> &'a mut V {
                match self {
                    Entry::Occupied(e) => e.into_mut(),
                    Entry::Vacant(e) => e.insert(f()),
                }
            }
            pub fn or_default(self) -> &'a mut V
            where
                V: Default,
            {
                self.or_insert_with(V::default)
            }
        }
        impl<'a, K, V> OccupiedEntry<'a, K, V> {
            pub fn key(&self) -> &K {
                &self.key
            }
            pub fn get(&self) -> &V {
                &self.slot.as_ref().unwrap().1
            }
            pub fn get_mut(&mut self) -> &mut V {
                &mut self.slot.as_mut().unwrap().1
            }
            pub fn into_mut(self) -> &'a mut V {
                &mut self.slot.as_mut().unwrap().1
            }
            pub fn insert(&mut self, v: V) -> V {
                std::mem::replace(&mut self.slot.as_mut().unwrap().1, v)
            }
            pub fn remove(self) -> V {
                (*self.slot.take().unwrap()).1
            }
        }
        impl<'a, K, V> VacantEntry<'a, K, V> {
            pub fn key(&self) -> &K {
                &self.key
            }
            pub fn insert(self, v: V) -> &'a mut V {
                *self.slot = Some(Box::new((self.key, v)));
                &mut self.slot.as_mut().unwrap().1
            }
        }
        /// slot order (harnesses place entries in arbitrary slots)
        pub struct Values<'a, K, V> {
            pub(super) slots: &'a [Option<Box<(K, V)>>; CAP],
            pub(super) next: usize,
        }
        impl<'a, K, V> Iterator for Values<'a, K, V> {
            type Item = &'a V;
            fn next(&mut self) -> Option<&'a V> {
                while self.next < CAP {
                    let i = self.next;
                    self.next += 1;
                    if let Some(b) = &self.slots[i] {
                        return Some(&b.1);
                    }
                }
                None
            }
        }
    }
}

// ---------------------------------------------------------------------------
// ScanMap<K, V, N>: SmallMap's assumed finite-map contract with EAGER iterators.
// Why (measured, units/C47): `slots.iter().filter_map(..)` (core::slice::Iter =
// pointer arithmetic over cells of several hundred bytes) under nested
// `.values().map(|m| m.values().filter(..).count()).sum()` kept CBMC's symbolic
// execution busy for > 300 s before any formula was built.  Here `iter/keys/values`
// collect the N cell references with constant indices into a by-value array, and the
// consuming adaptors the verified texts use (`fold` — reached by `count`, `sum`,
// `filter(..).count()`, `map(..).sum()` — and `find`) are one pass with a constant
// index per unrolled step, so no position ever becomes a symbolic pointer offset.
// `next` is kept (slot order) for `for` loops.  Iteration is in slot order; harnesses
// place entries in arbitrary slots, so no proof depends on the order.
pub struct ScanMap<K, V, const N: usize> {
    pub slots: [Option<(K, V)>; N],
}
impl<K, V, const N: usize> Default for ScanMap<K, V, N> {
    fn default() -> Self {
        ScanMap { slots: [const { None }; N] }
    }
}
pub struct Scan<T, const N: usize> {
    items: [Option<T>; N],
    pos: usize,
}
impl<T, const N: usize> Iterator for Scan<T, N> {
    type Item = T;
    fn next(&mut self) -> Option<T> {
        let mut out = None;
        let mut i = 0;
        while i < N {
            if out.is_none() && i >= self.pos {
                if let Some(x) = self.items[i].take() {
                    out = Some(x);
                    self.pos = i + 1;
                }
            }
            i += 1;
        }
        if out.is_none() {
            self.pos = N;
        }
        out
    }
    fn fold<B, F: FnMut(B, T) -> B>(mut self, init: B, mut f: F) -> B {
        let mut acc = init;
        let mut i = 0;
        while i < N {
            if i >= self.pos {
                if let Some(x) = self.items[i].take() {
                    acc = f(acc, x);
                }
            }
            i += 1;
        }
        acc
    }
    fn count(self) -> usize {
        self.fold(0, |n, _| n + 1)
    }
    fn find<P: FnMut(&T) -> bool>(&mut self, mut p: P) -> Option<T> {
        let mut out = None;
        let mut i = 0;
        while i < N {
            if out.is_none() && i >= self.pos {
                if let Some(x) = self.items[i].take() {
                    if p(&x) {
                        out = Some(x);
                        self.pos = i + 1;
                    }
                }
            }
            i += 1;
        }
        if out.is_none() {
            self.pos = N;
        }
        out
    }
}
impl<K: Eq, V, const N: usize> ScanMap<K, V, N> {
    pub fn new() -> Self {
        Self::default()
    }
    pub fn from_cells(slots: [Option<(K, V)>; N]) -> Self {
        ScanMap { slots }
    }
    pub fn len(&self) -> usize {
        let mut n = 0;
        let mut i = 0;
        while i < N {
            if self.slots[i].is_some() {
                n += 1;
            }
            i += 1;
        }
        n
    }
    pub fn is_empty(&self) -> bool {
        self.len() == 0
    }
    pub fn contains_key(&self, k: &K) -> bool {
        self.get(k).is_some()
    }
    pub fn get(&self, k: &K) -> Option<&V> {
        let mut out = None;
        let mut i = 0;
        while i < N {
            if let Some((kk, v)) = &self.slots[i] {
                if out.is_none() && kk == k {
                    out = Some(v);
                }
            }
            i += 1;
        }
        out
    }
    pub fn get_mut(&mut self, k: &K) -> Option<&mut V> {
        let mut i = 0;
        while i < N {
            let hit = match &self.slots[i] {
                Some((kk, _)) => kk == k,
                None => false,
            };
            if hit {
                return self.slots[i].as_mut().map(|(_, v)| v);
            }
            i += 1;
        }
        None
    }
    pub fn insert(&mut self, k: K, v: V) -> Option<V> {
        let mut i = 0;
        while i < N {
            let hit = match &self.slots[i] {
                Some((kk, _)) => *kk == k,
                None => false,
            };
            if hit {
                return self.slots[i].replace((k, v)).map(|(_, old)| old);
            }
            i += 1;
        }
        let mut j = 0;
        while j < N {
            if self.slots[j].is_none() {
                self.slots[j] = Some((k, v));
                return None;
            }
            j += 1;
        }
        overflow()
    }
    pub fn remove(&mut self, k: &K) -> Option<V> {
        let mut i = 0;
        while i < N {
            let hit = match &self.slots[i] {
                Some((kk, _)) => kk == k,
                None => false,
            };
            if hit {
                return self.slots[i].take().map(|(_, v)| v);
            }
            i += 1;
        }
        None
    }
    pub fn iter(&self) -> Scan<(&K, &V), N> {
        let mut items = [const { None }; N];
        let mut i = 0;
        while i < N {
            items[i] = self.slots[i].as_ref().map(|(k, v)| (k, v));
            i += 1;
        }
        Scan { items, pos: 0 }
    }
    pub fn keys(&self) -> Scan<&K, N> {
        let mut items = [const { None }; N];
        let mut i = 0;
        while i < N {
            items[i] = self.slots[i].as_ref().map(|(k, _)| k);
            i += 1;
        }
        Scan { items, pos: 0 }
    }
    pub fn values(&self) -> Scan<&V, N> {
        let mut items = [const { None }; N];
        let mut i = 0;
        while i < N {
            items[i] = self.slots[i].as_ref().map(|(_, v)| v);
            i += 1;
        }
        Scan { items, pos: 0 }
    }
    /// same entry types as the HashMap shim (they only hold the cell reference)
    pub fn entry(&mut self, k: K) -> hash_map::Entry<'_, K, V> {
        let mut i = 0;
        while i < N {
            let hit = match &self.slots[i] {
                Some((kk, _)) => *kk == k,
                None => false,
            };
            if hit {
                return hash_map::Entry::Occupied(hash_map::OccupiedEntry { slot: &mut self.slots[i], key: k });
            }
            i += 1;
        }
        let mut j = 0;
        while j < N {
            if self.slots[j].is_none() {
                return hash_map::Entry::Vacant(hash_map::VacantEntry { slot: &mut self.slots[j], key: k });
            }
            j += 1;
        }
        overflow()
    }
    pub fn retain(&mut self, mut f: impl FnMut(&K, &mut V) -> bool) {
        let mut i = 0;
        while i < N {
            let keep = match &mut self.slots[i] {
                Some((k, v)) => f(k, v),
                None => true,
            };
            if !keep {
                self.slots[i] = None;
            }
            i += 1;
        }
    }
    pub fn clear(&mut self) {
        let mut i = 0;
        while i < N {
            self.slots[i] = None;
            i += 1;
        }
    }
}
impl<'a, K: Eq, V, const N: usize> IntoIterator for &'a ScanMap<K, V, N> {
    type Item = (&'a K, &'a V);
    type IntoIter = Scan<(&'a K, &'a V), N>;
    fn into_iter(self) -> Self::IntoIter {
        self.iter()
    }
}
/// `use crate::verif_shims::{ScanHashMap as HashMap, hash_map}` retargets a file whose maps
/// are iterated inside the verified text (capacity CAP, like the HashMap shim).
pub type ScanHashMap<K, V> = ScanMap<K, V, CAP>;
