// Neutralises `tracing` events under Kani: Kani 0.68 ICEs
// (kani-compiler/src/intrinsics.rs:243) as soon as tracing's dispatcher is
// reachable.  The three entry points every `tracing::{trace,debug,info,warn,
// error}!` expansion goes through are stubbed: the callsite registers as
// "never interested", nothing is enabled, dispatch is a no-op.  Logging has no
// effect on the verified functions' results.
//
// usage (inside a unit module):
//   include!(concat!(env!("LIBP2P_VERIF"), "/shims/tracing_off.rs"));
//   tracing_off! { #[kani::proof] fn my_harness() { ... } }
#[allow(dead_code)]
pub(crate) mod tracing_off {
    pub(crate) struct E<'a>(&'a ());
    impl<'a> E<'a> {
        pub(crate) fn dispatch(_m: &'static tracing::Metadata<'static>, _f: &'a tracing::field::ValueSet<'_>) {}
    }
    pub(crate) fn not_enabled(_m: &'static tracing::Metadata<'static>, _i: tracing::subscriber::Interest) -> bool {
        false
    }
    pub(crate) fn no_register(_c: &'static tracing::callsite::DefaultCallsite) -> tracing::subscriber::Interest {
        tracing::subscriber::Interest::never()
    }
}

#[allow(unused_macros)]
macro_rules! tracing_off {
    ($(#[$m:meta])* fn $name:ident() $body:block) => {
        $(#[$m])*
        #[kani::stub(tracing::Event::dispatch, tracing_off::E::dispatch)]
        #[kani::stub(tracing::__macro_support::__is_enabled, tracing_off::not_enabled)]
        #[kani::stub(tracing::callsite::DefaultCallsite::register, tracing_off::no_register)]
        fn $name() $body
    };
}
