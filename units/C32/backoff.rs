// C32 — gossipsub backoff storage: a backoff is never shortened.
// HashMap/HashSet -> dependency shim; Instant::now -> controllable clock;
// BackoffStorage::heartbeats (128-bit div_ceil, out of CBMC's reach) is replaced by
// an over-approximating contract stub: ANY slot count (the safety clauses below
// must hold whatever slot a pair is filed under).
// wf: every (topic, peer) in `backoffs` carries a slot index < len and that slot
// contains the pair.  One step from ANY wf state: 1 topic, <= 2 peers, 3 slots.
include!(concat!(env!("LIBP2P_VERIF"), "/shims/clock.rs"));
include!(concat!(env!("LIBP2P_VERIF"), "/shims/tracing_off.rs"));

const HORIZON: u64 = 1 << 40;
const SLOTS: usize = 3;

fn heartbeats_any(_d: &Duration, _hb: &Duration) -> usize {
    let r: usize = kani::any();
    kani::assume(r <= 1 << 40);
    r
}

fn topic() -> TopicHash {
    TopicHash::from_raw("t")
}
fn peer(b: u8) -> PeerId {
    PeerId::from_bytes(&[0, 1, b]).unwrap()
}

struct St {
    s: BackoffStorage,
    present: [bool; 2],
    until: [(u64, u32); 2],
}

fn any_state() -> St {
    let mut slots = Vec::with_capacity(SLOTS);
    let mut i = 0;
    while i < SLOTS {
        slots.push(HashSet::new());
        i += 1;
    }
    let hb: usize = kani::any();
    kani::assume(hb < SLOTS);
    let interval_s: u64 = kani::any();
    kani::assume(interval_s >= 1 && interval_s <= 3600);
    let slack: u32 = kani::any();
    kani::assume(slack <= 4);
    let mut s = BackoffStorage {
        backoffs: HashMap::new(),
        backoffs_by_heartbeat: slots,
        heartbeat_index: HeartbeatIndex(hb),
        heartbeat_interval: Duration::from_secs(interval_s),
        backoff_slack: slack,
    };
    let mut present = [false; 2];
    let mut until = [(0u64, 0u32); 2];
    let mut p = 0;
    while p < 2 {
        if kani::any() {
            let (sec, ns, inst) = clock::any_instant(HORIZON);
            let idx: usize = kani::any();
            kani::assume(idx < SLOTS);
            s.backoffs.entry(topic()).or_default().insert(peer(p as u8), (inst, HeartbeatIndex(idx)));
            s.backoffs_by_heartbeat[idx].insert((topic(), peer(p as u8)));
            present[p] = true;
            until[p] = (sec, ns);
        }
        p += 1;
    }
    St { s, present, until }
}

fn stored(s: &BackoffStorage, p: u8) -> Option<(u64, u32)> {
    s.get_backoff_time(&topic(), &peer(p)).map(|i| {
        let d = i.duration_since(clock::zero());
        (d.as_secs(), d.subsec_nanos())
    })
}

fn wf(s: &BackoffStorage) -> bool {
    let mut p = 0u8;
    while p < 2 {
        if let Some(m) = s.backoffs.get(&topic()) {
            if let Some((_, idx)) = m.get(&peer(p)) {
                if idx.0 >= s.backoffs_by_heartbeat.len() {
                    return false;
                }
                if !s.backoffs_by_heartbeat[idx.0].contains(&(topic(), peer(p))) {
                    return false;
                }
            }
        }
        p += 1;
    }
    true
}

tracing_off! {
#[kani::proof]
#[kani::unwind(6)]
#[kani::stub(std::time::Instant::now, clock::now)]
#[kani::stub(BackoffStorage::heartbeats, heartbeats_any)]
fn update_backoff_never_shortens() {
    let now = clock::set_any(HORIZON);
    let mut st = any_state();
    let d = Duration::new(kani::any::<u32>() as u64, kani::any::<u32>() % 1_000_000_000);
    let before0 = stored(&st.s, 0);
    let before1 = stored(&st.s, 1);
    st.s.update_backoff(&topic(), &peer(0), d);
    let due = Duration::new(now.0, now.1) + d;
    let due = (due.as_secs(), due.subsec_nanos());
    let after0 = stored(&st.s, 0);
    // the peer is backed off at least until max(previous, now + d)
    assert!(st.s.is_backoff_with_slack(&topic(), &peer(0)));
    match before0 {
        Some(b) => assert!(after0 == Some(if b < due { due } else { b })),
        None => assert!(after0 == Some(due)),
    }
    // frame: the other peer's backoff is untouched
    assert!(stored(&st.s, 1) == before1);
    assert!(wf(&st.s));
    let _ = (st.present, st.until);
}
}

tracing_off! {
#[kani::proof]
#[kani::unwind(6)]
#[kani::stub(std::time::Instant::now, clock::now)]
fn heartbeat_forgets_only_expired() {
    let now = clock::set_any(HORIZON);
    let mut st = any_state();
    let hb0 = st.s.heartbeat_index.0;
    let slack = st.s.heartbeat_interval * st.s.backoff_slack;
    let before = [stored(&st.s, 0), stored(&st.s, 1)];
    st.s.heartbeat();
    assert!(st.s.heartbeat_index.0 == (hb0 + 1) % SLOTS);
    let mut p = 0;
    while p < 2 {
        if let Some(b) = before[p] {
            let expired = Duration::new(b.0, b.1) + slack <= Duration::new(now.0, now.1);
            let after = stored(&st.s, p as u8);
            // a pair is forgotten ONLY if its backoff plus the slack has passed; otherwise untouched
            if !expired {
                assert!(after == before[p]);
            } else {
                assert!(after.is_none() || after == before[p]);
            }
        } else {
            assert!(stored(&st.s, p as u8).is_none());
        }
        p += 1;
    }
    assert!(wf(&st.s));
}
}

/// Vacuity canary: must FAIL.
tracing_off! {
#[kani::proof]
#[kani::unwind(6)]
#[kani::stub(std::time::Instant::now, clock::now)]
fn canary_heartbeat_forgets_everything() {
    clock::set_any(HORIZON);
    let mut st = any_state();
    kani::assume(st.present[0]);
    st.s.heartbeat();
    assert!(stored(&st.s, 0).is_none());
}
}
