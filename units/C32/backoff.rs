// C32 — gossipsub backoff storage: a backoff is never shortened.
// HashMap/HashSet -> dependency shim; Instant::now -> controllable clock;
// BackoffStorage::heartbeats (128-bit div_ceil, out of CBMC's reach; proved by the Verus
// group of this unit) is replaced by an over-approximating stub: ANY slot count (the
// safety clauses below must hold whatever slot a pair is filed under).
// wf: every (topic, peer) in `backoffs` carries a slot index < len and that slot
// contains the pair.  One step from ANY wf state: 1 topic, <= 2 peers, 3 slots.
// Cost notes (measured): the state is built and inspected through CONCRETE slot
// indices (case splits), the topic is the empty string (no heap traffic in
// TopicHash::clone), results are mem::forgotten.
include!(concat!(env!("LIBP2P_VERIF"), "/shims/clock.rs"));
include!(concat!(env!("LIBP2P_VERIF"), "/shims/tracing_off.rs"));

const HORIZON: u64 = 1 << 40;
const SLOTS: usize = 3;

fn heartbeats_any(_d: &Duration, _hb: &Duration) -> usize {
    let r: usize = kani::any();
    kani::assume(r <= 1 << 40);
    r
}

fn topic() -> TopicHash {
    TopicHash::from_raw("")
}
fn peer(b: u8) -> PeerId {
    PeerId::from_bytes(&[0, 1, b]).unwrap()
}

fn slot_insert(s: &mut BackoffStorage, idx: usize, p: &PeerId) {
    match idx {
        0 => s.backoffs_by_heartbeat[0].insert((topic(), *p)),
        1 => s.backoffs_by_heartbeat[1].insert((topic(), *p)),
        _ => s.backoffs_by_heartbeat[2].insert((topic(), *p)),
    };
}
fn slot_contains(s: &BackoffStorage, idx: usize, p: &PeerId) -> bool {
    match idx {
        0 => s.backoffs_by_heartbeat[0].contains(&(topic(), *p)),
        1 => s.backoffs_by_heartbeat[1].contains(&(topic(), *p)),
        2 => s.backoffs_by_heartbeat[2].contains(&(topic(), *p)),
        _ => false,
    }
}

struct St {
    s: BackoffStorage,
    p: [PeerId; 2],
    present: [bool; 2],
    idx: [usize; 2],
}

/// any wf state with <= 2 backed-off peers of one topic; `hb` = current heartbeat slot
fn any_state(hb: usize) -> St {
    let mut slots = Vec::with_capacity(SLOTS);
    let mut i = 0;
    while i < SLOTS {
        slots.push(HashSet::new());
        i += 1;
    }
    let interval_s: u64 = kani::any();
    kani::assume(interval_s >= 1 && interval_s <= 3600);
    let slack: u32 = kani::any();
    kani::assume(slack <= 4);
    let mut s = BackoffStorage {
        backoffs: HashMap::new(),
        backoffs_by_heartbeat: slots,
        heartbeat_index: HeartbeatIndex(hb),
        heartbeat_interval: Duration::from_secs(interval_s),
        backoff_slack: slack,
    };
    let p = [peer(0), peer(1)];
    let mut present = [false; 2];
    let mut idx = [0usize; 2];
    let mut k = 0;
    while k < 2 {
        if kani::any() {
            let (_, _, inst) = clock::any_instant(HORIZON);
            let i: usize = kani::any();
            kani::assume(i < SLOTS);
            s.backoffs.entry(topic()).or_default().insert(p[k], (inst, HeartbeatIndex(i)));
            slot_insert(&mut s, i, &p[k]);
            present[k] = true;
            idx[k] = i;
        }
        k += 1;
    }
    St { s, p, present, idx }
}

fn stored(s: &BackoffStorage, p: &PeerId) -> Option<(u64, u32)> {
    s.get_backoff_time(&topic(), p).map(|i| {
        let d = i.duration_since(clock::zero());
        (d.as_secs(), d.subsec_nanos())
    })
}

/// representation invariant (the same one any_state generates): a pair is filed in
/// exactly the slot its stored index names, and slots hold no pair without a backoff
fn wf(st: &St) -> bool {
    let mut k = 0;
    while k < 2 {
        let idx = match st.s.backoffs.get(&topic()) {
            Some(m) => m.get(&st.p[k]).map(|(_, i)| i.0),
            None => None,
        };
        if let Some(i) = idx {
            if i >= st.s.backoffs_by_heartbeat.len() {
                return false;
            }
        }
        let mut j = 0;
        while j < SLOTS {
            if slot_contains(&st.s, j, &st.p[k]) != (idx == Some(j)) {
                return false;
            }
            j += 1;
        }
        k += 1;
    }
    true
}

fn any_hb() -> usize {
    let hb: usize = kani::any();
    kani::assume(hb < SLOTS);
    hb
}

tracing_off! {
#[kani::proof]
#[kani::unwind(6)]
#[kani::stub(std::time::Instant::now, clock::now)]
#[kani::stub(BackoffStorage::heartbeats, heartbeats_any)]
fn update_backoff_never_shortens() {
    let now = clock::set_any(HORIZON);
    let mut st = any_state(any_hb());
    let d = Duration::new(kani::any::<u32>() as u64, kani::any::<u32>() % 1_000_000_000);
    let before0 = stored(&st.s, &st.p[0]);
    let before1 = stored(&st.s, &st.p[1]);
    st.s.update_backoff(&topic(), &st.p[0], d);
    let due = Duration::new(now.0, now.1) + d;
    let due = (due.as_secs(), due.subsec_nanos());
    let after0 = stored(&st.s, &st.p[0]);
    // the peer is backed off at least until now + d, and never less than before
    assert!(st.s.is_backoff_with_slack(&topic(), &st.p[0]));
    match after0 {
        Some(a) => {
            assert!(a >= due);
            if let Some(b) = before0 {
                assert!(a >= b);
            }
        }
        None => assert!(false),
    }
    // frame: the other peer's backoff is untouched
    assert!(stored(&st.s, &st.p[1]) == before1);
    assert!(wf(&st));
    std::mem::forget(st);
}
}

tracing_off! {
#[kani::proof]
#[kani::unwind(6)]
#[kani::stub(std::time::Instant::now, clock::now)]
fn heartbeat_forgets_only_expired() {
    let now = clock::set_any(HORIZON);
    let hb0 = any_hb();
    let mut st = any_state(hb0);
    let slack = st.s.heartbeat_interval * st.s.backoff_slack;
    let before = [stored(&st.s, &st.p[0]), stored(&st.s, &st.p[1])];
    st.s.heartbeat();
    // the index advances by one: every slot is visited once per `len` heartbeats
    assert!(st.s.heartbeat_index.0 == (hb0 + 1) % SLOTS);
    let mut k = 0;
    while k < 2 {
        let after = stored(&st.s, &st.p[k]);
        if let Some(b) = before[k] {
            let t_now = Duration::new(now.0, now.1);
            let elapsed = Duration::new(b.0, b.1) <= t_now;
            let expired = Duration::new(b.0, b.1) + slack <= t_now;
            // never forgotten (nor changed) before the backoff has elapsed ...
            if !elapsed {
                assert!(after == before[k]);
                assert!(st.s.is_backoff_with_slack(&topic(), &st.p[k]));
            }
            // ... nor before the slack has passed as well
            if !expired {
                assert!(after == before[k]);
            }
            // forgotten or untouched, nothing else
            assert!(after.is_none() || after == before[k]);
            // "eventually forgets": expired plus slack and filed under the visited slot => gone
            if expired && st.idx[k] == hb0 {
                assert!(after.is_none());
                assert!(!st.s.is_backoff_with_slack(&topic(), &st.p[k]));
            }
        } else {
            assert!(after.is_none());
        }
        k += 1;
    }
    assert!(wf(&st));
    std::mem::forget(st);
}
}

/// a backoff so long that instant + slack is not representable as an Instant is still a
/// backoff that has not elapsed: the heartbeat visiting its slot must keep it
tracing_off! {
#[kani::proof]
#[kani::unwind(6)]
#[kani::stub(std::time::Instant::now, clock::now)]
fn heartbeat_keeps_backoff_beyond_instant_range() {
    clock::set_any(HORIZON);
    let mut st = any_state(0);
    kani::assume(!st.present[0] && !st.present[1]);
    kani::assume(st.s.backoff_slack >= 1);
    // stored by an earlier update_backoff whose now + d was still representable
    let far = clock::at(i64::MAX as u64, 0);
    st.s.backoffs.entry(topic()).or_default().insert(st.p[0], (far, HeartbeatIndex(0)));
    slot_insert(&mut st.s, 0, &st.p[0]);
    st.s.heartbeat();
    assert!(st.s.is_backoff_with_slack(&topic(), &st.p[0]));
    std::mem::forget(st);
}
}

/// Vacuity canary: must FAIL.
tracing_off! {
#[kani::proof]
#[kani::unwind(6)]
#[kani::stub(std::time::Instant::now, clock::now)]
fn canary_heartbeat_forgets_everything() {
    clock::set_any(HORIZON);
    let mut st = any_state(0);
    kani::assume(st.present[0] && !st.present[1]);
    st.s.heartbeat();
    assert!(stored(&st.s, &st.p[0]).is_none());
    std::mem::forget(st);
}
}
