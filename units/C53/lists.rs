// C53 — allow / block lists.  The behaviour's HashSet is the dependency shim
// (finite set, arbitrary iteration order); every function below is the real
// libp2p code.  One step from ANY list state with <= 2 listed peers and <= 1
// queued close request.

fn any_peer() -> PeerId {
    let d: [u8; 1] = kani::any();
    PeerId::from_multihash(libp2p_core::multihash::Multihash::<64>::wrap(0, &d).unwrap()).unwrap()
}

fn any_state<S: Default>(ins: impl Fn(&mut Behaviour<S>, PeerId)) -> Behaviour<S> {
    any_state_q(ins, None)
}

/// `queued`: None = zero or one close request queued (symbolic choice); Some(b) = that choice
/// made by the caller, so that the VecDeque has a concrete length (the two operations that
/// push onto the queue are checked once per queue length: jointly exhaustive for <= 1 queued).
fn any_state_q<S: Default>(ins: impl Fn(&mut Behaviour<S>, PeerId), queued: Option<bool>) -> Behaviour<S> {
    let mut b = Behaviour::<S>::default();
    // pre-sized so that the operation under test does not reallocate the queue
    // (VecDeque growth with a symbolic head/len exhausts CBMC's memory)
    b.close_connections = VecDeque::with_capacity(4);
    if kani::any() {
        ins(&mut b, any_peer());
    }
    if kani::any() {
        ins(&mut b, any_peer());
    }
    let q = match queued {
        Some(q) => q,
        None => kani::any(),
    };
    if q {
        b.close_connections.push_back(any_peer());
    }
    b
}

/// list state with an EMPTY close queue (operations that never touch the queue; the frame
/// condition "queue unchanged" is then checked on the empty queue only — stated bound)
fn any_allowed() -> Behaviour<AllowedPeers> {
    any_allowed_q(Some(false))
}

fn any_allowed_q(queued: Option<bool>) -> Behaviour<AllowedPeers> {
    any_state_q(
        |b: &mut Behaviour<AllowedPeers>, p| {
            b.state.peers.insert(p);
        },
        queued,
    )
}

fn any_blocked() -> Behaviour<BlockedPeers> {
    any_blocked_q(Some(false))
}

fn any_blocked_q(queued: Option<bool>) -> Behaviour<BlockedPeers> {
    any_state_q(
        |b: &mut Behaviour<BlockedPeers>, p| {
            b.state.peers.insert(p);
        },
        queued,
    )
}

fn queue_snapshot<S>(b: &Behaviour<S>) -> (usize, Option<PeerId>, Option<PeerId>) {
    (b.close_connections.len(), b.close_connections.front().copied(), b.close_connections.back().copied())
}

#[kani::proof]
#[kani::unwind(8)]
fn contract_enforce() {
    let a = any_allowed();
    let b = any_blocked();
    let p = any_peer();
    let ra = a.state.enforce(&p);
    let rb = b.state.enforce(&p);
    // allow list: admitted iff listed; block list: admitted iff NOT listed
    assert!(ra.is_ok() == a.state.peers.contains(&p));
    assert!(rb.is_ok() == !b.state.peers.contains(&p));
    std::mem::forget((ra, rb));
}

fn check_list_change<S: Default + Enforce>(
    mut b: Behaviour<S>,
    peers: fn(&Behaviour<S>) -> &HashSet<PeerId>,
    op: fn(&mut Behaviour<S>, PeerId) -> bool,
    adds: bool,
    queues_close: bool,
    admitted_after: bool,
) {
    let p = any_peer();
    let q = any_peer();
    kani::assume(q != p);
    let had = peers(&b).contains(&p);
    let q_in = peers(&b).contains(&q);
    let q0 = queue_snapshot(&b);
    let r = op(&mut b, p);
    // return value = "the list changed"; afterwards the peer is (not) listed
    assert!(r == (had != adds));
    assert!(peers(&b).contains(&p) == adds);
    // connections of a peer that just lost its permission are queued for closing, exactly once
    if queues_close && r {
        assert!(b.close_connections.len() == q0.0 + 1);
        assert!(b.close_connections.back() == Some(&p));
    } else {
        assert!(queue_snapshot(&b) == q0);
    }
    let e = b.state.enforce(&p);
    assert!(e.is_ok() == admitted_after);
    std::mem::forget(e);
    // frame: every other peer's membership unchanged
    assert!(peers(&b).contains(&q) == q_in);
    std::mem::forget(b);
}

#[kani::proof]
#[kani::unwind(8)]
fn contract_allow_peer() {
    check_list_change(any_allowed(), |b| &b.state.peers, |b, p| b.allow_peer(p), true, false, true);
}

#[kani::proof]
#[kani::unwind(8)]
fn contract_disallow_peer_queue_empty() {
    check_list_change(any_allowed_q(Some(false)), |b| &b.state.peers, |b, p| b.disallow_peer(p), false, true, false);
}

#[kani::proof]
#[kani::unwind(8)]
fn contract_disallow_peer_queue_one() {
    check_list_change(any_allowed_q(Some(true)), |b| &b.state.peers, |b, p| b.disallow_peer(p), false, true, false);
}

#[kani::proof]
#[kani::unwind(8)]
fn contract_block_peer_queue_empty() {
    check_list_change(any_blocked_q(Some(false)), |b| &b.state.peers, |b, p| b.block_peer(p), true, true, false);
}

#[kani::proof]
#[kani::unwind(8)]
fn contract_block_peer_queue_one() {
    check_list_change(any_blocked_q(Some(true)), |b| &b.state.peers, |b, p| b.block_peer(p), true, true, false);
}

#[kani::proof]
#[kani::unwind(8)]
fn contract_unblock_peer() {
    check_list_change(any_blocked(), |b| &b.state.peers, |b, p| b.unblock_peer(p), false, false, true);
}

/// every connection callback denies exactly when the list says so, and never changes the list
#[kani::proof]
#[kani::unwind(8)]
fn contract_callbacks_enforce_blocked() {
    let mut b = any_blocked();
    let p = any_peer();
    let listed = b.state.peers.contains(&p);
    let id = ConnectionId::new_unchecked(kani::any());
    let a = Multiaddr::empty();
    let k: u8 = kani::any();
    let denied = match k % 4 {
        0 => {
            let r = b.handle_established_inbound_connection(id, p, &a, &a);
            let d = r.is_err();
            std::mem::forget(r);
            d
        }
        1 => {
            let r = b.handle_established_outbound_connection(id, p, &a, Endpoint::Dialer, PortUse::Reuse);
            let d = r.is_err();
            std::mem::forget(r);
            d
        }
        2 => {
            let r = b.handle_pending_outbound_connection(id, Some(p), &[], Endpoint::Dialer);
            let d = r.is_err();
            std::mem::forget(r);
            d
        }
        _ => {
            // dialing an unknown peer is not subject to the list
            let r = b.handle_pending_outbound_connection(id, None, &[], Endpoint::Dialer);
            assert!(r.is_ok());
            std::mem::forget(r);
            listed
        }
    };
    assert!(denied == listed);
    assert!(b.state.peers.contains(&p) == listed);
}

#[kani::proof]
#[kani::unwind(8)]
fn contract_callbacks_enforce_allowed() {
    let mut b = any_allowed();
    let p = any_peer();
    let listed = b.state.peers.contains(&p);
    let id = ConnectionId::new_unchecked(kani::any());
    let a = Multiaddr::empty();
    let k: u8 = kani::any();
    let denied = match k % 3 {
        0 => {
            let r = b.handle_established_inbound_connection(id, p, &a, &a);
            let d = r.is_err();
            std::mem::forget(r);
            d
        }
        1 => {
            let r = b.handle_established_outbound_connection(id, p, &a, Endpoint::Dialer, PortUse::Reuse);
            let d = r.is_err();
            std::mem::forget(r);
            d
        }
        _ => {
            let r = b.handle_pending_outbound_connection(id, Some(p), &[], Endpoint::Dialer);
            let d = r.is_err();
            std::mem::forget(r);
            d
        }
    };
    assert!(denied == !listed);
    assert!(b.state.peers.contains(&p) == listed);
}

/// poll turns each queued peer into exactly one CloseConnection{All} command, FIFO
#[kani::proof]
#[kani::unwind(8)]
fn contract_poll_emits_close_queue_empty() {
    poll_emits_close(false);
}

#[kani::proof]
#[kani::unwind(8)]
fn contract_poll_emits_close_queue_one() {
    poll_emits_close(true);
}

fn poll_emits_close(queued: bool) {
    let mut b = any_blocked_q(Some(queued));
    let q0 = queue_snapshot(&b);
    let w = futures_noop_waker();
    let mut cx = Context::from_waker(&w);
    match b.poll(&mut cx) {
        Poll::Ready(ToSwarm::CloseConnection { peer_id, connection }) => {
            assert!(q0.0 > 0 && Some(peer_id) == q0.1);
            assert!(matches!(connection, CloseConnection::All));
            assert!(b.close_connections.len() == q0.0 - 1);
        }
        Poll::Ready(_) => assert!(false),
        Poll::Pending => {
            assert!(q0.0 == 0);
            assert!(b.waker.is_some());
        }
    }
    std::mem::forget(b);
}

fn futures_noop_waker() -> Waker {
    use std::task::{RawWaker, RawWakerVTable};
    fn no(_: *const ()) {}
    fn cl(_: *const ()) -> RawWaker {
        RawWaker::new(std::ptr::null(), &VT)
    }
    static VT: RawWakerVTable = RawWakerVTable::new(cl, no, no, no);
    unsafe { Waker::from_raw(RawWaker::new(std::ptr::null(), &VT)) }
}

/// Vacuity canary: must FAIL.
#[kani::proof]
#[kani::unwind(8)]
fn canary_block_list_admits_everyone() {
    let b = any_blocked();
    let p = any_peer();
    let r = b.state.enforce(&p);
    assert!(r.is_ok());
    std::mem::forget(r);
}
