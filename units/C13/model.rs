// C13 (model group) — the text of `_address_translation`, extracted verbatim from
// /repo on every run, compiled against a *sequence model* of Multiaddr: a
// prefix-packed array of at most N components (a `Copy` model of the
// `multiaddr::Protocol` enum, same variant names) with the two methods the
// function uses (`replace`, `iter`).  ASSUMED (trusted base): the real Multiaddr
// is a faithful finite sequence of Protocol values and
// `Multiaddr::replace(at, by)` returns the sequence with element `at` replaced by
// `by(&element)` and None if `at` is out of range or `by` returns None (its
// documented behaviour; translation.rs cross-checks this on the real crate for
// IP first components).  What the model buys: every first-component kind of the
// statement (Ip4, Ip6, Dns, Dns4, Dns6) with symbolic payloads, symbolic shapes.
use std::net::{Ipv4Addr, Ipv6Addr};

pub(crate) const N: usize = 3;

/// Model of `multiaddr::Protocol`: same variant names, payloads the function never
/// inspects simplified to `Copy` data (names are `&'static str`, a peer id is an
/// opaque number).  The real enum owns `Cow<str>` payloads whose clone/drop glue
/// alone cost the verifier >200 s per harness (unit.json `measured`).
#[derive(Clone, Copy, PartialEq, Eq, Debug)]
pub(crate) enum Protocol {
    Dccp(u16),
    Dns(&'static str),
    Dns4(&'static str),
    Dns6(&'static str),
    Dnsaddr(&'static str),
    Http,
    Https,
    Ip4(Ipv4Addr),
    Ip6(Ipv6Addr),
    Ip6zone(&'static str),
    Memory(u64),
    P2p(u32),
    P2pCircuit,
    Quic,
    QuicV1,
    Sctp(u16),
    Tcp(u16),
    Tls,
    Noise,
    Udp(u16),
    WebRTCDirect,
    WebTransport,
    Ws(&'static str),
    Wss(&'static str),
}

#[derive(Clone, Copy, PartialEq, Eq, Debug)]
pub(crate) struct Multiaddr {
    /// prefix-packed: Some.. then None..
    pub(crate) items: [Option<Protocol>; N],
}

impl Multiaddr {
    pub(crate) fn iter(&self) -> impl Iterator<Item = Protocol> + '_ {
        self.items.iter().map_while(|x| *x)
    }

    pub(crate) fn replace<F>(&self, at: usize, by: F) -> Option<Multiaddr>
    where
        F: FnOnce(&Protocol) -> Option<Protocol>,
    {
        if at >= N {
            return None;
        }
        let q = by(self.items[at].as_ref()?)?;
        let mut out = *self;
        out.items[at] = Some(q);
        Some(out)
    }
}

// `pub fn _address_translation(original: &Multiaddr, observed: &Multiaddr) -> Option<Multiaddr>`
// — verbatim; `Multiaddr` resolves to the model above, `Protocol` to the real enum.
include!(concat!(env!("LIBP2P_VERIF_GEN"), "/C13/address_translation_fn.rs"));

/// any ASCII name of at most 3 bytes (the function never looks at it)
fn any_name() -> &'static str {
    let buf: &'static [u8; 3] = Box::leak(Box::new(kani::any()));
    kani::assume(buf[0] < 0x80 && buf[1] < 0x80 && buf[2] < 0x80);
    let n: usize = kani::any();
    kani::assume(n <= 3);
    unsafe { std::str::from_utf8_unchecked(&buf[..n]) }
}

/// one component of the statement's alphabet (IP4/IP6/DNS/TCP/UDP/QUIC/P2P plus
/// p2p-circuit and memory as further non-host components), payloads symbolic
fn any_component() -> Protocol {
    let kind: u8 = kani::any();
    match kind {
        0 => Protocol::Ip4(Ipv4Addr::from(kani::any::<u32>())),
        1 => Protocol::Ip6(Ipv6Addr::from(kani::any::<u128>())),
        2 => Protocol::Dns(any_name()),
        3 => Protocol::Dns4(any_name()),
        4 => Protocol::Dns6(any_name()),
        5 => Protocol::Tcp(kani::any()),
        6 => Protocol::Udp(kani::any()),
        7 => Protocol::QuicV1,
        8 => Protocol::P2pCircuit,
        9 => Protocol::P2p(kani::any()),
        _ => Protocol::Memory(kani::any()),
    }
}

fn any_addr(max: usize) -> Multiaddr {
    let n: usize = kani::any();
    kani::assume(n <= max);
    let mut a = Multiaddr { items: [None, None, None] };
    for i in 0..N {
        if i < max && i < n {
            a.items[i] = Some(any_component());
        }
    }
    a
}

/// the statement's "IP or DNS component"
fn host(p: &Option<Protocol>) -> bool {
    matches!(
        p,
        Some(Protocol::Ip4(_) | Protocol::Ip6(_) | Protocol::Dns(_) | Protocol::Dns4(_) | Protocol::Dns6(_))
    )
}

#[kani::proof]
#[kani::unwind(20)]
fn contract_translation_on_sequence_model() {
    let original = any_addr(3);
    let observed = any_addr(3);
    let r = _address_translation(&original, &observed);
    let ok = host(&original.items[0]) && host(&observed.items[0]);
    kani::cover!(ok);
    kani::cover!(!ok);
    kani::cover!(matches!(original.items[0], Some(Protocol::Dns4(_))) && matches!(observed.items[0], Some(Protocol::Ip6(_))));
    match &r {
        Some(x) => {
            assert!(ok);
            assert!(x.items[0] == observed.items[0]);
            assert!(x.items[1] == original.items[1]);
            assert!(x.items[2] == original.items[2]);
        }
        None => assert!(!ok),
    }
}

/// Vacuity canary: must FAIL (claims the first component is never replaced).
#[kani::proof]
#[kani::unwind(20)]
fn canary_model_keeps_original_host() {
    let original = any_addr(3);
    let observed = any_addr(3);
    let r = _address_translation(&original, &observed);
    if let Some(x) = &r {
        assert!(x.items[0] == original.items[0]);
    }
}
