// C13 — _address_translation(original, observed) on the REAL Multiaddr.
// Contract: Some(r) <=> first components of both are IP/DNS; then r[0] ==
// observed[0], r[1..] == original[1..] (same length); otherwise None.
// Address shapes are concrete, payloads (IPs, ports) fully symbolic.
use std::net::{Ipv4Addr, Ipv6Addr};

fn ip4() -> Protocol<'static> {
    Protocol::Ip4(Ipv4Addr::from(kani::any::<u32>()))
}
fn ip6() -> Protocol<'static> {
    Protocol::Ip6(Ipv6Addr::from(kani::any::<u128>()))
}
fn tcp() -> Protocol<'static> {
    Protocol::Tcp(kani::any())
}
fn udp() -> Protocol<'static> {
    Protocol::Udp(kani::any())
}

/// original = [o0, o1, o2], observed = [b0, b1]; expect translation
fn check_translates(o0: Protocol<'static>, o1: Protocol<'static>, o2: Protocol<'static>, b0: Protocol<'static>, b1: Protocol<'static>) {
    let original = Multiaddr::empty().with(o0).with(o1.clone()).with(o2.clone());
    let observed = Multiaddr::empty().with(b0.clone()).with(b1);
    match _address_translation(&original, &observed) {
        None => assert!(false),
        Some(r) => {
            let mut it = r.iter();
            assert!(it.next() == Some(b0));
            assert!(it.next() == Some(o1));
            assert!(it.next() == Some(o2));
            assert!(it.next().is_none());
        }
    }
}

fn check_none(original: Multiaddr, observed: Multiaddr) {
    assert!(_address_translation(&original, &observed).is_none());
}

#[kani::proof]
#[kani::unwind(24)]
fn translate_ip4_by_ip4() {
    check_translates(ip4(), tcp(), Protocol::Ws("/".into()), ip4(), tcp());
}

#[kani::proof]
#[kani::unwind(24)]
fn translate_ip4_by_ip6() {
    check_translates(ip4(), udp(), Protocol::QuicV1, ip6(), udp());
}

#[kani::proof]
#[kani::unwind(24)]
fn translate_ip6_by_ip4() {
    check_translates(ip6(), tcp(), Protocol::Tls, ip4(), tcp());
}

#[kani::proof]
#[kani::unwind(24)]
fn translate_ip6_by_ip6() {
    check_translates(ip6(), udp(), Protocol::QuicV1, ip6(), tcp());
}

/// original does not start with IP/DNS => None (observed is a valid IP address)
#[kani::proof]
#[kani::unwind(24)]
fn none_when_original_not_ip() {
    check_none(Multiaddr::empty().with(tcp()).with(ip4()), Multiaddr::empty().with(ip4()).with(tcp()));
    check_none(Multiaddr::empty().with(Protocol::P2pCircuit).with(ip6()), Multiaddr::empty().with(ip6()));
    check_none(Multiaddr::empty(), Multiaddr::empty().with(ip4()));
}

/// observed does not start with IP/DNS (or is empty) => None
#[kani::proof]
#[kani::unwind(24)]
fn none_when_observed_not_ip() {
    check_none(Multiaddr::empty().with(ip4()).with(tcp()), Multiaddr::empty().with(tcp()).with(ip4()));
    check_none(Multiaddr::empty().with(ip6()).with(tcp()), Multiaddr::empty().with(udp()));
    check_none(Multiaddr::empty().with(ip4()).with(tcp()), Multiaddr::empty());
}

/// Vacuity canary: must FAIL.
#[kani::proof]
#[kani::unwind(24)]
fn canary_never_translates() {
    check_none(Multiaddr::empty().with(ip4()).with(tcp()), Multiaddr::empty().with(ip4()).with(tcp()));
}
