// C13 — _address_translation(original, observed) on the REAL Multiaddr.
// Contract (from the statement): Some(r) <=> the first components of both
// addresses are IP/DNS components; then r[0] == observed[0], r[1..] ==
// original[1..] (same length); otherwise None.
// Address shapes are concrete, payloads (IPs, ports) fully symbolic.  The DNS
// kinds and symbolic shapes are covered by model.rs (same function text run on a
// sequence model of Multiaddr); this file is the cross-check on the real crate.
use std::net::{Ipv4Addr, Ipv6Addr};

fn ip4() -> Protocol<'static> {
    Protocol::Ip4(Ipv4Addr::from(kani::any::<u32>()))
}
fn ip6() -> Protocol<'static> {
    Protocol::Ip6(Ipv6Addr::from(kani::any::<u128>()))
}
fn tcp() -> Protocol<'static> {
    Protocol::Tcp(kani::any())
}
fn udp() -> Protocol<'static> {
    Protocol::Udp(kani::any())
}

/// original = [o0, o1], observed = [b0, b1]; expect Some([b0, o1])
fn check_translates(o0: Protocol<'static>, o1: Protocol<'static>, b0: Protocol<'static>, b1: Protocol<'static>) {
    let original = Multiaddr::from(o0).with(o1.clone());
    let observed = Multiaddr::from(b0.clone()).with(b1);
    let r = _address_translation(&original, &observed);
    match &r {
        None => assert!(false),
        Some(r) => {
            let mut it = r.iter();
            assert!(it.next() == Some(b0));
            assert!(it.next() == Some(o1));
            assert!(it.next().is_none());
        }
    }
    std::mem::forget(r);
    std::mem::forget(original);
    std::mem::forget(observed);
}

fn check_none(original: Multiaddr, observed: Multiaddr) {
    let r = _address_translation(&original, &observed);
    assert!(r.is_none());
    std::mem::forget(r);
    std::mem::forget(original);
    std::mem::forget(observed);
}

#[kani::proof]
#[kani::unwind(24)]
fn translate_ip4_by_ip4() {
    check_translates(ip4(), tcp(), ip4(), tcp());
}

#[kani::proof]
#[kani::unwind(24)]
fn translate_ip4_by_ip6() {
    check_translates(ip4(), udp(), ip6(), udp());
}

#[kani::proof]
#[kani::unwind(24)]
fn translate_ip6_by_ip4() {
    check_translates(ip6(), tcp(), ip4(), udp());
}

#[kani::proof]
#[kani::unwind(24)]
fn translate_ip6_by_ip6() {
    check_translates(ip6(), udp(), ip6(), tcp());
}

/// a longer tail is preserved component by component: [ip4, udp, quic-v1] by [ip6, udp]
#[kani::proof]
#[kani::unwind(24)]
fn translate_keeps_three_component_tail() {
    let (o1, b0) = (udp(), ip6());
    let original = Multiaddr::from(ip4()).with(o1.clone()).with(Protocol::QuicV1);
    let observed = Multiaddr::from(b0.clone()).with(udp());
    let r = _address_translation(&original, &observed);
    match &r {
        None => assert!(false),
        Some(r) => {
            let mut it = r.iter();
            assert!(it.next() == Some(b0));
            assert!(it.next() == Some(o1));
            assert!(it.next() == Some(Protocol::QuicV1));
            assert!(it.next().is_none());
        }
    }
    std::mem::forget(r);
    std::mem::forget(original);
    std::mem::forget(observed);
}

/// original does not start with IP/DNS => None (observed is a valid IP address)
#[kani::proof]
#[kani::unwind(24)]
fn none_when_original_starts_with_tcp() {
    check_none(Multiaddr::from(tcp()).with(ip4()), Multiaddr::from(ip4()));
}

/// observed does not start with IP/DNS => None (original is translatable)
#[kani::proof]
#[kani::unwind(24)]
fn none_when_observed_starts_with_udp() {
    check_none(Multiaddr::from(ip4()).with(tcp()), Multiaddr::from(udp()).with(ip4()));
}

/// an empty address on either side => None
#[kani::proof]
#[kani::unwind(24)]
fn none_when_either_is_empty() {
    if kani::any() {
        check_none(Multiaddr::empty(), Multiaddr::from(ip4()));
    } else {
        check_none(Multiaddr::from(ip6()), Multiaddr::empty());
    }
}

/// Vacuity canary: must FAIL.
#[kani::proof]
#[kani::unwind(24)]
fn canary_never_translates() {
    check_none(Multiaddr::from(ip4()), Multiaddr::from(ip4()));
}
