// C37 — KBucket.  Abstract view of a bucket: two ordered lists
//   disc : disconnected entries, least-recently-updated first   (= nodes[..first_connected_pos])
//   conn : connected entries, least-recently-updated first      (= nodes[first_connected_pos..])
// plus the optional pending entry.  Representation invariant `wf`: len <= capacity,
// first_connected_pos in {None} u [0,len), keys pairwise distinct, pending key not
// stored.  Each public operation is checked ONE STEP from ANY wf state (capacity
// <= 3, one-byte keys) against its abstract specification, and must re-establish
// wf: an inductive proof over all operation histories at that capacity.
include!(concat!(env!("LIBP2P_VERIF"), "/shims/clock.rs"));
use super::key::verif::c40::{bytes_of, key_of};

const CAP: usize = 3;
const HORIZON: u64 = 1 << 40;

#[derive(Clone)]
pub(crate) struct K(KeyBytes);
impl AsRef<KeyBytes> for K {
    fn as_ref(&self) -> &KeyBytes {
        &self.0
    }
}
fn k(b: u8) -> K {
    let mut a = [0u8; 32];
    a[31] = b;
    K(key_of(a))
}
fn kb(key: &K) -> u8 {
    bytes_of(&key.0)[31]
}

/// fixed-capacity list of key bytes (abstract sequences)
#[derive(Clone, Copy, PartialEq, Eq)]
struct L {
    k: [u8; 4],
    n: usize,
}
impl L {
    fn empty() -> L {
        L { k: [0; 4], n: 0 }
    }
    fn push(mut self, x: u8) -> L {
        self.k[self.n] = x;
        self.n += 1;
        self
    }
    fn find(&self, x: u8) -> Option<usize> {
        let mut i = 0;
        while i < 4 {
            if i < self.n && self.k[i] == x {
                return Some(i);
            }
            i += 1;
        }
        None
    }
    fn remove_at(mut self, p: usize) -> L {
        let mut i = 0;
        while i < 3 {
            if i >= p && i + 1 < self.n {
                self.k[i] = self.k[i + 1];
            }
            i += 1;
        }
        self.n -= 1;
        self.k[self.n] = 0;
        self
    }
}

#[derive(Clone, Copy, PartialEq, Eq)]
struct Abs {
    disc: L,
    conn: L,
    pend: Option<(u8, bool, u64, u32)>, // key, connected?, replace (secs, nanos)
}

/// abstraction function: real bucket -> abstract view
fn abs(b: &KBucket<K, u8>) -> Abs {
    let mut disc = L::empty();
    let mut conn = L::empty();
    let split = b.first_connected_pos.unwrap_or(b.nodes.len());
    let len = b.nodes.len();
    let mut i = 0;
    while i < CAP + 1 {
        if i < len {
            if i < split {
                disc = disc.push(kb(&b.nodes[i].key));
            } else {
                conn = conn.push(kb(&b.nodes[i].key));
            }
        }
        i += 1;
    }
    let pend = b.pending.as_ref().map(|p| {
        let d = p.replace.duration_since(clock::zero());
        (kb(&p.node.key), p.status == NodeStatus::Connected, d.as_secs(), d.subsec_nanos())
    });
    Abs { disc, conn, pend }
}

fn wf(b: &KBucket<K, u8>) -> bool {
    let n = b.nodes.len();
    if n > b.capacity {
        return false;
    }
    if let Some(p) = b.first_connected_pos {
        if p >= n {
            return false;
        }
    }
    if n > CAP + 1 {
        return false;
    }
    let mut i = 0;
    while i < CAP + 1 {
        if i < n {
            let mut j = 0;
            while j < CAP + 1 {
                if j > i && j < n && kb(&b.nodes[i].key) == kb(&b.nodes[j].key) {
                    return false;
                }
                j += 1;
            }
            if let Some(p) = &b.pending {
                if kb(&p.node.key) == kb(&b.nodes[i].key) {
                    return false;
                }
            }
        }
        i += 1;
    }
    true
}

/// an arbitrary well-formed bucket holding exactly N entries (N concrete: a Vec of
/// symbolic length does not terminate under CBMC), capacity N..=CAP
fn any_bucket<const N: usize>() -> KBucket<K, u8> {
    let capacity: usize = kani::any();
    kani::assume(capacity >= 1 && capacity >= N && capacity <= CAP);
    let n: usize = N;
    let keys: [u8; CAP] = kani::any();
    let mut nodes = Vec::with_capacity(CAP + 1);
    let mut i = 0;
    while i < N {
        nodes.push(Node { key: k(keys[i]), value: 0u8 });
        i += 1;
    }
    let first_connected_pos: Option<usize> = if kani::any() {
        let p: usize = kani::any();
        kani::assume(p < n);
        Some(p)
    } else {
        None
    };
    let pending = if kani::any() {
        let (_, _, replace) = clock::any_instant(HORIZON);
        Some(PendingNode {
            node: Node { key: k(kani::any()), value: 0u8 },
            status: if kani::any() { NodeStatus::Connected } else { NodeStatus::Disconnected },
            replace,
        })
    } else {
        None
    };
    let t: u64 = kani::any();
    kani::assume(t <= HORIZON);
    let b = KBucket { nodes, capacity, first_connected_pos, pending, pending_timeout: Duration::from_secs(t) };
    kani::assume(wf(&b));
    b
}

fn any_status() -> NodeStatus {
    if kani::any() { NodeStatus::Connected } else { NodeStatus::Disconnected }
}

fn stored(a: &Abs, x: u8) -> bool {
    a.disc.find(x).is_some() || a.conn.find(x).is_some()
}

// ---- insert ------------------------------------------------------------------
fn check_insert<const N: usize>() {
    let (ns, nn) = clock::set_any(HORIZON);
    let mut b = any_bucket::<N>();
    let a0 = abs(&b);
    let cap = b.capacity;
    let timeout = b.pending_timeout;
    let x: u8 = kani::any();
    kani::assume(!stored(&a0, x));
    kani::assume(a0.pend.map_or(true, |p| p.0 != x));
    let st = any_status();
    let full = a0.disc.n + a0.conn.n >= cap;
    let r = b.insert(Node { key: k(x), value: 0 }, st);
    let a1 = abs(&b);
    assert!(wf(&b));
    assert!(b.capacity == cap);
    if !full {
        assert!(matches!(r, InsertResult::Inserted));
        // appended at the end of its own list; the other list and the pending entry untouched
        if st == NodeStatus::Connected {
            assert!(a1.conn == a0.conn.push(x) && a1.disc == a0.disc);
        } else {
            assert!(a1.disc == a0.disc.push(x) && a1.conn == a0.conn);
        }
        assert!(a1.pend == a0.pend);
    } else if st == NodeStatus::Connected && a0.disc.n > 0 && a0.pend.is_none() {
        // full, some entry disconnected, no pending yet: becomes pending against the
        // least-recently-disconnected entry, eligible only after the timeout
        match r {
            InsertResult::Pending { disconnected } => assert!(kb(&disconnected) == a0.disc.k[0]),
            _ => assert!(false),
        }
        assert!(a1.disc == a0.disc && a1.conn == a0.conn);
        let due = Duration::new(ns, nn) + timeout;
        assert!(a1.pend == Some((x, true, due.as_secs(), due.subsec_nanos())));
    } else {
        assert!(matches!(r, InsertResult::Full));
        assert!(a1 == a0);
    }
}

// ---- remove ------------------------------------------------------------------
fn check_remove<const N: usize>() {
    let mut b = any_bucket::<N>();
    let a0 = abs(&b);
    let x: u8 = kani::any();
    let r = b.remove(&k(x));
    let a1 = abs(&b);
    assert!(wf(&b));
    assert!(a1.pend == a0.pend);
    match (a0.disc.find(x), a0.conn.find(x)) {
        (Some(i), _) => {
            assert!(a1.disc == a0.disc.remove_at(i) && a1.conn == a0.conn);
            match r {
                Some((n, s, p)) => assert!(kb(&n.key) == x && s == NodeStatus::Disconnected && p == Position(i)),
                None => assert!(false),
            }
        }
        (None, Some(i)) => {
            assert!(a1.conn == a0.conn.remove_at(i) && a1.disc == a0.disc);
            match r {
                Some((n, s, p)) => assert!(kb(&n.key) == x && s == NodeStatus::Connected && p == Position(a0.disc.n + i)),
                None => assert!(false),
            }
        }
        (None, None) => {
            assert!(r.is_none());
            assert!(a1 == a0);
        }
    }
}

// ---- update ------------------------------------------------------------------
fn check_update<const N: usize, const CONNECTED: bool>() {
    clock::set_any(HORIZON);
    let mut b = any_bucket::<N>();
    let a0 = abs(&b);
    let x: u8 = kani::any();
    // the new status is a const parameter: the two cases are separate harnesses
    // (measured: both in one harness exhaust CBMC's memory for N >= 1)
    let st = if CONNECTED { NodeStatus::Connected } else { NodeStatus::Disconnected };
    b.update(&k(x), st);
    let a1 = abs(&b);
    assert!(wf(&b));
    let (d, c) = (a0.disc.find(x), a0.conn.find(x));
    if d.is_none() && c.is_none() {
        assert!(a1 == a0);
        return;
    }
    let disc = match d { Some(i) => a0.disc.remove_at(i), None => a0.disc };
    let conn = match c { Some(i) => a0.conn.remove_at(i), None => a0.conn };
    // moved to the end (most recently updated) of the list of its new status
    if st == NodeStatus::Connected {
        assert!(a1.disc == disc && a1.conn == conn.push(x));
    } else {
        assert!(a1.disc == disc.push(x) && a1.conn == conn);
    }
    // "only if that entry is still disconnected": when the replacement candidate
    // (the least-recently-disconnected entry, nodes[0]) becomes connected the pending
    // entry must be dropped; an update never installs a different pending entry
    if d == Some(0) && st == NodeStatus::Connected {
        assert!(a1.pend.is_none());
    }
    assert!(a1.pend.is_none() || a1.pend == a0.pend);
}

// ---- apply_pending -------------------------------------------------------------
fn check_apply_pending<const N: usize>() {
    let (ns, nn) = clock::set_any(HORIZON);
    let mut b = any_bucket::<N>();
    let a0 = abs(&b);
    let cap = b.capacity;
    let r = b.apply_pending();
    let a1 = abs(&b);
    assert!(wf(&b));
    match a0.pend {
        None => {
            assert!(r.is_none() && a1 == a0);
        }
        Some((pk, pconn, rs, rn)) => {
            let ready = (rs, rn) <= (ns, nn);
            if !ready {
                // only after its timeout
                assert!(r.is_none() && a1 == a0);
            } else if a0.disc.n + a0.conn.n >= cap {
                if a0.disc.n == 0 {
                    // only if the candidate is still disconnected: otherwise nothing is replaced
                    assert!(r.is_none());
                    assert!(a1.disc == a0.disc && a1.conn == a0.conn && a1.pend.is_none());
                } else {
                    // replaces only the least-recently-disconnected entry
                    let disc = a0.disc.remove_at(0);
                    if pconn {
                        assert!(a1.disc == disc && a1.conn == a0.conn.push(pk));
                    } else {
                        assert!(a1.disc == disc.push(pk) && a1.conn == a0.conn);
                    }
                    assert!(a1.pend.is_none());
                    match r {
                        Some(ap) => {
                            assert!(kb(&ap.inserted.key) == pk);
                            assert!(ap.evicted.map(|n| kb(&n.key)) == Some(a0.disc.k[0]));
                        }
                        None => assert!(false),
                    }
                }
            } else {
                if pconn {
                    assert!(a1.disc == a0.disc && a1.conn == a0.conn.push(pk));
                } else {
                    assert!(a1.disc == a0.disc.push(pk) && a1.conn == a0.conn);
                }
                assert!(a1.pend.is_none());
                match r {
                    Some(ap) => assert!(kb(&ap.inserted.key) == pk && ap.evicted.is_none()),
                    None => assert!(false),
                }
            }
        }
    }
}

// ---- observers -----------------------------------------------------------------
fn check_status_position<const N: usize>() {
    let b = any_bucket::<N>();
    let a = abs(&b);
    let x: u8 = kani::any();
    match b.position(&k(x)) {
        Some(Position(p)) => {
            assert!(p < b.nodes.len());
            let in_disc = a.disc.find(x) == Some(p);
            let in_conn = p >= a.disc.n && a.conn.find(x) == Some(p - a.disc.n);
            assert!(in_disc || in_conn);
            assert!((b.status(Position(p)) == NodeStatus::Connected) == in_conn);
        }
        None => assert!(!stored(&a, x)),
    }
    assert!(b.num_entries() == a.disc.n + a.conn.n);
    assert!(b.num_entries() <= b.capacity);
}

#[kani::proof]
#[kani::unwind(34)]
#[kani::stub(std::time::Instant::now, clock::now)]
fn contract_insert_n0() {
    check_insert::<0>();
}

#[kani::proof]
#[kani::unwind(34)]
#[kani::stub(std::time::Instant::now, clock::now)]
fn contract_insert_n1() {
    check_insert::<1>();
}

#[kani::proof]
#[kani::unwind(34)]
#[kani::stub(std::time::Instant::now, clock::now)]
fn contract_insert_n2() {
    check_insert::<2>();
}

#[kani::proof]
#[kani::unwind(34)]
#[kani::stub(std::time::Instant::now, clock::now)]
fn contract_insert_n3() {
    check_insert::<3>();
}

#[kani::proof]
#[kani::unwind(34)]
fn contract_remove_n0() {
    check_remove::<0>();
}

#[kani::proof]
#[kani::unwind(34)]
fn contract_remove_n1() {
    check_remove::<1>();
}

#[kani::proof]
#[kani::unwind(34)]
fn contract_remove_n2() {
    check_remove::<2>();
}

#[kani::proof]
#[kani::unwind(34)]
fn contract_remove_n3() {
    check_remove::<3>();
}

#[kani::proof]
#[kani::unwind(34)]
#[kani::stub(std::time::Instant::now, clock::now)]
fn contract_update_connected_n0() {
    check_update::<0, true>();
}

#[kani::proof]
#[kani::unwind(34)]
#[kani::stub(std::time::Instant::now, clock::now)]
fn contract_update_disconnected_n0() {
    check_update::<0, false>();
}

#[kani::proof]
#[kani::unwind(34)]
#[kani::stub(std::time::Instant::now, clock::now)]
fn contract_update_connected_n1() {
    check_update::<1, true>();
}

#[kani::proof]
#[kani::unwind(34)]
#[kani::stub(std::time::Instant::now, clock::now)]
fn contract_update_disconnected_n1() {
    check_update::<1, false>();
}

#[kani::proof]
#[kani::unwind(34)]
#[kani::stub(std::time::Instant::now, clock::now)]
fn contract_update_connected_n2() {
    check_update::<2, true>();
}

#[kani::proof]
#[kani::unwind(34)]
#[kani::stub(std::time::Instant::now, clock::now)]
fn contract_update_disconnected_n2() {
    check_update::<2, false>();
}

#[kani::proof]
#[kani::unwind(34)]
#[kani::stub(std::time::Instant::now, clock::now)]
fn contract_update_connected_n3() {
    check_update::<3, true>();
}

#[kani::proof]
#[kani::unwind(34)]
#[kani::stub(std::time::Instant::now, clock::now)]
fn contract_update_disconnected_n3() {
    check_update::<3, false>();
}

#[kani::proof]
#[kani::unwind(34)]
#[kani::stub(std::time::Instant::now, clock::now)]
fn contract_apply_pending_n0() {
    check_apply_pending::<0>();
}

#[kani::proof]
#[kani::unwind(34)]
#[kani::stub(std::time::Instant::now, clock::now)]
fn contract_apply_pending_n1() {
    check_apply_pending::<1>();
}

#[kani::proof]
#[kani::unwind(34)]
#[kani::stub(std::time::Instant::now, clock::now)]
fn contract_apply_pending_n2() {
    check_apply_pending::<2>();
}

#[kani::proof]
#[kani::unwind(34)]
#[kani::stub(std::time::Instant::now, clock::now)]
fn contract_apply_pending_n3() {
    check_apply_pending::<3>();
}

#[kani::proof]
#[kani::unwind(34)]
fn contract_status_position_n0() {
    check_status_position::<0>();
}

#[kani::proof]
#[kani::unwind(34)]
fn contract_status_position_n1() {
    check_status_position::<1>();
}

#[kani::proof]
#[kani::unwind(34)]
fn contract_status_position_n2() {
    check_status_position::<2>();
}

#[kani::proof]
#[kani::unwind(34)]
fn contract_status_position_n3() {
    check_status_position::<3>();
}

/// Vacuity canary: must FAIL.
#[kani::proof]
#[kani::unwind(34)]
fn canary_remove_never_finds() {
    let mut b = any_bucket::<2>();
    let x: u8 = kani::any();
    assert!(b.remove(&k(x)).is_none());
}
