// C15 — multistream-select negotiation messages (misc/multistream-select/src/protocol.rs).
// Contract from the statement:
//  (1) every valid message encodes to bytes that decode back to the same message;
//  (2) arbitrary incoming bytes never cause a panic;
//  (3) protocol names not starting with '/' are rejected with an error;
//  (4) more than 1000 listed protocols are rejected with an error (loop-head fragment).
// "Valid" (the statement does not define it; stated precondition): protocol names start with
// '/', contain no '\n', and a single-protocol message is not the header line itself.
// Harnesses mem::forget what they built (drop glue of Bytes/Vec<String> is not under test).
// Only the three fixed messages are round-tripped here: Message::decode on symbolic bytes
// (slice::contains / memchr, String::from_utf8) did not terminate, see unit.json "measured".

/// Received frames are handed to the functions under test as `Bytes` over leaked (static)
/// storage: `Message::decode` / `Protocol::try_from` consume their argument, and the drop glue
/// of a heap-backed `Bytes` (shared_drop -> dealloc) is what CBMC cannot digest; a static
/// `Bytes` has a no-op drop.  The functions are agnostic of the representation (stated in
/// unit.json trusted_base).
fn bytes_of(p: &[u8]) -> Bytes {
    let mut store = Box::new([0u8; 32]);
    let n = p.len();
    let mut i = 0;
    while i < n {
        store[i] = p[i];
        i += 1;
    }
    let leaked: &'static [u8; 32] = Box::leak(store);
    Bytes::from_static(&leaked[..n])
}

/// what a receiver sees: the frame body handed to Message::decode
fn wire_of(m: &Message) -> Bytes {
    let mut b = BytesMut::with_capacity(32);
    m.encode(&mut b);
    let r = bytes_of(&b[..]);
    std::mem::forget(b);
    r
}

fn check_round_trip(m: Message) {
    let w = wire_of(&m);
    let r = Message::decode(w);
    match &r {
        Ok(back) => assert!(*back == m),
        Err(_) => assert!(false),
    }
    std::mem::forget(r);
    std::mem::forget(m);
}

/// (1) the three fixed messages
#[kani::proof]
#[kani::unwind(34)]
fn lemma_round_trip_fixed_messages() {
    check_round_trip(Message::Header(HeaderLine::V1));
    check_round_trip(Message::ListProtocols);
    check_round_trip(Message::NotAvailable);
}

// (4) loop head of the `ls` response decoder, cut verbatim out of Message::decode
pub(crate) struct ProtocolsLen(pub(crate) usize);
impl ProtocolsLen {
    fn len(&self) -> usize {
        self.0
    }
}
include!(concat!(env!("LIBP2P_VERIF_GEN"), "/C15/ls_loop_head.rs"));

/// with 1000 names already collected, anything but the terminating "\n" is TooManyProtocols
/// (so a 1001st name is never parsed or pushed); below 1000 the head lets the name through.
#[kani::proof]
#[kani::unwind(6)]
fn contract_ls_loop_head_max_protocols() {
    let raw: [u8; 3] = kani::any();
    let n: usize = kani::any();
    kani::assume(n <= 3);
    let remaining: &[u8] = &raw[..n];
    let count: usize = kani::any();
    let r = ls_loop_head(remaining, &ProtocolsLen(count));
    let terminated = n == 1 && raw[0] == b'\n';
    if terminated {
        assert!(matches!(r, Ok(true))); // end of list
    } else if count == 1000 {
        assert!(matches!(r, Err(ProtocolError::TooManyProtocols)));
    } else if count < 1000 {
        assert!(matches!(r, Ok(false))); // goes on to parse one more name
    }
    std::mem::forget(r);
}

/// Vacuity canary: must FAIL (claims the loop head never rejects).
#[kani::proof]
#[kani::unwind(6)]
fn canary_ls_loop_head_never_rejects() {
    let raw: [u8; 3] = kani::any();
    let count: usize = kani::any();
    let r = ls_loop_head(&raw[..], &ProtocolsLen(count));
    assert!(r.is_ok());
    std::mem::forget(r);
}
