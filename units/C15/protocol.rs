// C15 — multistream-select negotiation messages (misc/multistream-select/src/protocol.rs).
// Contract from the statement:
//  (1) every valid message encodes to bytes that decode back to the same message;
//  (2) arbitrary incoming bytes never cause a panic;
//  (3) protocol names not starting with '/' are rejected with an error;
//  (4) more than 1000 listed protocols are rejected with an error (loop-head fragment).
// "Valid" (the statement does not define it; stated precondition): protocol names start with
// '/', contain no '\n', and a single-protocol message is not the header line itself.
// Harnesses mem::forget what they built (drop glue of Bytes/Vec<String> is not under test).

/// Received frames are handed to the functions under test as `Bytes` over leaked (static)
/// storage: `Message::decode` / `Protocol::try_from` consume their argument, and the drop glue
/// of a heap-backed `Bytes` (shared_drop -> dealloc) is what CBMC cannot digest; a static
/// `Bytes` has a no-op drop.  The functions are agnostic of the representation (stated in
/// unit.json trusted_base).
fn bytes_of(p: &[u8]) -> Bytes {
    let mut store = Box::new([0u8; 32]);
    let n = p.len();
    let mut i = 0;
    while i < n {
        store[i] = p[i];
        i += 1;
    }
    let leaked: &'static [u8; 32] = Box::leak(store);
    Bytes::from_static(&leaked[..n])
}

/// what a receiver sees: the frame body handed to Message::decode
fn wire_of(m: &Message) -> Bytes {
    let mut b = BytesMut::with_capacity(32);
    m.encode(&mut b);
    let r = bytes_of(&b[..]);
    std::mem::forget(b);
    r
}

/// a valid protocol name of exactly N bytes: '/' followed by symbolic ASCII without '\n'
fn any_name<const N: usize>() -> Protocol {
    let mut raw: [u8; N] = kani::any();
    raw[0] = b'/';
    let mut i = 1;
    while i < N {
        kani::assume(raw[i] < 0x80 && raw[i] != b'\n');
        i += 1;
    }
    let s = unsafe { std::str::from_utf8_unchecked(&raw) };
    // the crate's own constructor for names (TryFrom<&str>)
    match Protocol::try_from(s) {
        Ok(p) => p,
        Err(_) => {
            assert!(false);
            unreachable!()
        }
    }
}

fn check_round_trip(m: Message) {
    let w = wire_of(&m);
    let r = Message::decode(w);
    match &r {
        Ok(back) => assert!(*back == m),
        Err(_) => assert!(false),
    }
    std::mem::forget(r);
    std::mem::forget(m);
}

/// (1) the three fixed messages
#[kani::proof]
#[kani::unwind(34)]
fn lemma_round_trip_fixed_messages() {
    check_round_trip(Message::Header(HeaderLine::V1));
    check_round_trip(Message::ListProtocols);
    check_round_trip(Message::NotAvailable);
}

/// (1) a protocol request / acknowledgement with a valid name
#[kani::proof]
#[kani::unwind(34)]
fn lemma_round_trip_protocol() {
    check_round_trip(Message::Protocol(any_name::<1>()));
    check_round_trip(Message::Protocol(any_name::<4>()));
}

/// (1) an `ls` response listing 0, 1 or 2 valid names
#[kani::proof]
#[kani::unwind(34)]
fn lemma_round_trip_protocols() {
    check_round_trip(Message::Protocols(Vec::new()));
    let mut one = Vec::with_capacity(2);
    one.push(any_name::<3>());
    check_round_trip(Message::Protocols(one));
    let mut two = Vec::with_capacity(2);
    two.push(any_name::<2>());
    two.push(any_name::<1>());
    check_round_trip(Message::Protocols(two));
}

/// (3) Protocol::try_from(bytes): a name not starting with '/' (incl. the empty name) is refused
#[kani::proof]
#[kani::unwind(34)]
fn contract_protocol_name_must_start_with_slash() {
    let raw: [u8; 4] = kani::any();
    let n: usize = kani::any();
    kani::assume(n <= 4);
    let starts = n > 0 && raw[0] == b'/';
    kani::assume(!starts);
    let r = Protocol::try_from(bytes_of(&raw[..n]));
    assert!(matches!(r, Err(ProtocolError::InvalidProtocol)));
    std::mem::forget(r);
    // and the &str constructor
    let raw2: [u8; 3] = kani::any();
    kani::assume(raw2[0] < 0x80 && raw2[1] < 0x80 && raw2[2] < 0x80 && raw2[0] != b'/');
    let s = unsafe { std::str::from_utf8_unchecked(&raw2) };
    let r2 = Protocol::try_from(s);
    assert!(matches!(r2, Err(ProtocolError::InvalidProtocol)));
    std::mem::forget(r2);
}

fn starts_with_slash(p: &Protocol) -> bool {
    p.as_ref().as_bytes().first() == Some(&b'/')
}

/// (2)+(3) Message::decode on EVERY byte string of length LEN: no panic; whatever is accepted
/// names only protocols starting with '/'; a lone name line without '/' is an error.
fn decode_arbitrary<const LEN: usize>() {
    let raw: [u8; LEN] = kani::any();
    let r = Message::decode(bytes_of(&raw));
    match &r {
        Ok(Message::Protocol(p)) => assert!(starts_with_slash(p)),
        Ok(Message::Protocols(ps)) => {
            let mut i = 0;
            while i < ps.len() {
                assert!(starts_with_slash(&ps[i]));
                i += 1;
            }
        }
        _ => {}
    }
    // a single length-prefixed name that does not start with '/' is rejected
    if LEN >= 4 && raw[0] as usize == LEN - 2 && raw[1] != b'/' && raw[LEN - 2] == b'\n' && raw[LEN - 1] == b'\n' {
        assert!(r.is_err());
    }
    std::mem::forget(r);
}

#[kani::proof]
#[kani::unwind(34)]
fn contract_decode_arbitrary_bytes_short() {
    decode_arbitrary::<0>();
    decode_arbitrary::<1>();
    decode_arbitrary::<2>();
    decode_arbitrary::<3>();
}

#[kani::proof]
#[kani::unwind(34)]
fn contract_decode_arbitrary_bytes_5() {
    decode_arbitrary::<5>();
}

// (4) loop head of the `ls` response decoder, cut verbatim out of Message::decode
pub(crate) struct ProtocolsLen(pub(crate) usize);
impl ProtocolsLen {
    fn len(&self) -> usize {
        self.0
    }
}
include!(concat!(env!("LIBP2P_VERIF_GEN"), "/C15/ls_loop_head.rs"));

/// with 1000 names already collected, anything but the terminating "\n" is TooManyProtocols
/// (so a 1001st name is never parsed or pushed); below 1000 the head lets the name through.
#[kani::proof]
#[kani::unwind(6)]
fn contract_ls_loop_head_max_protocols() {
    let raw: [u8; 3] = kani::any();
    let n: usize = kani::any();
    kani::assume(n <= 3);
    let remaining: &[u8] = &raw[..n];
    let count: usize = kani::any();
    let r = ls_loop_head(remaining, &ProtocolsLen(count));
    let terminated = n == 1 && raw[0] == b'\n';
    if terminated {
        assert!(matches!(r, Ok(true))); // end of list
    } else if count == 1000 {
        assert!(matches!(r, Err(ProtocolError::TooManyProtocols)));
    } else if count < 1000 {
        assert!(matches!(r, Ok(false))); // goes on to parse one more name
    }
    std::mem::forget(r);
}

/// Vacuity canary: must FAIL (claims decode never accepts a protocol message).
#[kani::proof]
#[kani::unwind(34)]
fn canary_decode_never_protocol() {
    let raw: [u8; 3] = kani::any();
    let r = Message::decode(bytes_of(&raw));
    assert!(!matches!(r, Ok(Message::Protocol(_))));
    std::mem::forget(r);
}
