// C15 — multistream-select frame layer (misc/multistream-select/src/length_delimited.rs).
// Statement: frames carry a length prefix of at most two bytes; oversized frames are
// rejected with an error; arbitrary incoming bytes never cause a panic.
include!(concat!(env!("LIBP2P_VERIF"), "/shims/tracing_off.rs"));

// ---- write side: the length check + prefix computation of start_send, cut verbatim ----
pub(crate) struct ItemLen(pub(crate) usize);
impl ItemLen {
    fn len(&self) -> usize {
        self.0
    }
}
include!(concat!(env!("LIBP2P_VERIF_GEN"), "/C15/start_send_prefix.rs"));

/// for EVERY frame length (full usize): accepted iff it fits a two-byte varint (<= 16383);
/// the prefix written is the 1- or 2-byte unsigned varint of the length.
#[kani::proof]
#[kani::unwind(5)]
fn contract_start_send_prefix_full_usize() {
    let n: usize = kani::any();
    let r = start_send_prefix(&ItemLen(n));
    match &r {
        Ok((len, prefix, plen)) => {
            assert!(n <= 16383);
            assert!(*len as usize == n);
            assert!(*plen == 1 || *plen == 2);
            if n < 128 {
                assert!(*plen == 1 && prefix[0] as usize == n);
            } else {
                assert!(*plen == 2);
                assert!(prefix[0] >= 0x80 && prefix[1] < 0x80 && prefix[1] != 0);
                assert!(((prefix[0] & 0x7f) as usize) | ((prefix[1] as usize) << 7) == n);
            }
        }
        Err(e) => {
            assert!(n > 16383);
            assert!(e.kind() == io::ErrorKind::InvalidData);
        }
    }
    std::mem::forget(r);
}

// ---- read side: the real poll_next over a reader that delivers one byte per poll ----
struct OneByte<const N: usize> {
    data: [u8; N],
    pos: usize,
}

impl<const N: usize> AsyncRead for OneByte<N> {
    fn poll_read(mut self: Pin<&mut Self>, _cx: &mut Context<'_>, buf: &mut [u8]) -> Poll<io::Result<usize>> {
        if self.pos >= N || buf.is_empty() {
            return Poll::Pending;
        }
        buf[0] = self.data[self.pos];
        self.pos += 1;
        Poll::Ready(Ok(1))
    }
}

fn noop_waker() -> std::task::Waker {
    use std::task::{RawWaker, RawWakerVTable};
    fn no(_: *const ()) {}
    fn cl(_: *const ()) -> RawWaker {
        RawWaker::new(std::ptr::null(), &VT)
    }
    static VT: RawWakerVTable = RawWakerVTable::new(cl, no, no, no);
    unsafe { std::task::Waker::from_raw(RawWaker::new(std::ptr::null(), &VT)) }
}

tracing_off! {
/// a length prefix that does not end within two bytes (a frame above 16383 bytes) is an
/// InvalidData error as soon as the second prefix byte is read: nothing is buffered
#[kani::proof]
#[kani::unwind(6)]
fn contract_poll_next_oversized_prefix_rejected() {
    let mut data: [u8; 3] = kani::any();
    data[0] |= 0x80;
    data[1] |= 0x80;
    let mut ld = LengthDelimited::new(OneByte { data, pos: 0 });
    let w = noop_waker();
    let mut cx = Context::from_waker(&w);
    let r = Pin::new(&mut ld).poll_next(&mut cx);
    match &r {
        Poll::Ready(Some(Err(e))) => assert!(e.kind() == io::ErrorKind::InvalidData),
        _ => assert!(false),
    }
    assert!(ld.read_buffer.is_empty());
    assert!(ld.inner.pos == 2);
    std::mem::forget(r);
    std::mem::forget(ld);
}
}

tracing_off! {
/// EVERY one-byte prefix followed by two arbitrary bytes: no panic; a frame is returned only
/// with exactly the announced length; otherwise the reader waits in ReadData{len} with a
/// buffer of exactly len bytes
#[kani::proof]
#[kani::unwind(6)]
fn contract_poll_next_short_prefix() {
    let data: [u8; 3] = kani::any();
    kani::assume(data[0] < 0x80);
    let mut ld = LengthDelimited::new(OneByte { data, pos: 0 });
    let w = noop_waker();
    let mut cx = Context::from_waker(&w);
    let r = Pin::new(&mut ld).poll_next(&mut cx);
    let len = data[0] as usize;
    match &r {
        Poll::Ready(Some(Ok(frame))) => {
            assert!(len <= 2 && frame.len() == len);
            let mut i = 0;
            while i < len {
                assert!(frame[i] == data[1 + i]);
                i += 1;
            }
        }
        Poll::Pending => {
            assert!(len > 2);
            assert!(matches!(ld.read_state, ReadState::ReadData { len: l, pos: 2 } if l as usize == len));
            assert!(ld.read_buffer.len() == len);
        }
        _ => assert!(false),
    }
    std::mem::forget(r);
    std::mem::forget(ld);
}
}
