// C15 — multistream-select frame layer (misc/multistream-select/src/length_delimited.rs).
// Statement: frames carry a length prefix of at most two bytes; oversized frames are
// rejected with an error; arbitrary incoming bytes never cause a panic.

// ---- write side: the length check + prefix computation of start_send, cut verbatim ----
pub(crate) struct ItemLen(pub(crate) usize);
impl ItemLen {
    fn len(&self) -> usize {
        self.0
    }
}
include!(concat!(env!("LIBP2P_VERIF_GEN"), "/C15/start_send_prefix.rs"));

/// for EVERY frame length (full usize): accepted iff it fits a two-byte varint (<= 16383);
/// the prefix written is the 1- or 2-byte unsigned varint of the length.
#[kani::proof]
#[kani::unwind(5)]
fn contract_start_send_prefix_full_usize() {
    let n: usize = kani::any();
    let r = start_send_prefix(&ItemLen(n));
    match &r {
        Ok((len, prefix, plen)) => {
            assert!(n <= 16383);
            assert!(*len as usize == n);
            assert!(*plen == 1 || *plen == 2);
            if n < 128 {
                assert!(*plen == 1 && prefix[0] as usize == n);
            } else {
                assert!(*plen == 2);
                assert!(prefix[0] >= 0x80 && prefix[1] < 0x80 && prefix[1] != 0);
                assert!(((prefix[0] & 0x7f) as usize) | ((prefix[1] as usize) << 7) == n);
            }
        }
        Err(e) => {
            assert!(n > 16383);
            assert!(e.kind() == io::ErrorKind::InvalidData);
        }
    }
    std::mem::forget(r);
}

// The read side (poll_next over a mock reader) did not terminate, see unit.json "measured".
