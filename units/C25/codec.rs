// C25 — mplex framing (muxers/mplex/src/codec.rs).  Contract from the statement:
//  (1) every frame encodes to bytes that decode, under ANY split of the byte stream, to the
//      same frame with the stream role mirrored (the receiver's `into_local()` of the decoded
//      id is the sender's id with the opposite role);
//  (2) a declared length above 1 MiB is rejected before the payload is buffered
//      (Err from the two varints alone; `reserve` is not called);
//  (3) unknown frame types (header & 7 == 7) are rejected;
//  (4) arbitrary input never causes a panic.
// Harnesses mem::forget the buffers they made (drop glue of shared BytesMut/Bytes is the
// allocator's business and exhausts CBMC).

fn no_format(_args: std::fmt::Arguments<'_>) -> String {
    String::new()
}

fn buf_from(bytes: &[u8]) -> BytesMut {
    let mut b = BytesMut::with_capacity(32);
    b.extend_from_slice(bytes);
    b
}

const MIB: usize = 1024 * 1024; // the statement's 1 MiB, deliberately not MAX_FRAME_SIZE

/// unsigned-varint per the multiformats spec (<= 9 bytes, 63 bits), read from raw[at..]:
/// Some((value, next index)) when a terminating byte is found within 9 bytes and inside raw.
fn spec_varint<const N: usize>(raw: &[u8; N], at: usize) -> Option<(u64, usize)> {
    let mut v: u64 = 0;
    let mut i = 0;
    while i < 9 && at + i < N {
        let b = raw[at + i];
        v |= ((b & 0x7f) as u64) << (7 * i);
        if b < 0x80 {
            return Some((v, at + i + 1));
        }
        i += 1;
    }
    None
}

fn any_role() -> Endpoint {
    if kani::any() { Endpoint::Dialer } else { Endpoint::Listener }
}

/// Bytes with symbolic content built through the shared representation
/// (`split_to().freeze()`), not through `Bytes::from(Vec)`.
fn bytes_of(p: &[u8]) -> Bytes {
    let mut b = BytesMut::with_capacity(8);
    b.extend_from_slice(p);
    let r = b.split_to(p.len()).freeze();
    std::mem::forget(b);
    r
}

/// kind: 0 Open, 1 Data, 2 Close, 3 Reset
fn make_frame(kind: u8, id: LocalStreamId, payload: &[u8]) -> Frame<LocalStreamId> {
    match kind {
        0 => Frame::Open { stream_id: id },
        1 => Frame::Data { stream_id: id, data: bytes_of(payload) },
        2 => Frame::Close { stream_id: id },
        _ => Frame::Reset { stream_id: id },
    }
}

/// (1) encode, then decode with the byte stream split at `k` (any position) into two reads.
/// Preconditions (stated in unit.json): num < 2^61 (the header is num << 3); Open frames
/// carry a Dialer id (Open has no role flag on the wire: only the opener sends it).
fn round_trip_split(kind: u8, num: u64, role: Endpoint, payload: &[u8], split: Option<usize>) {
    let id = LocalStreamId { num, role };
    let mut enc = Codec::new();
    let mut wire = BytesMut::with_capacity(32);
    let r = Encoder::encode(&mut enc, make_frame(kind, id, payload), &mut wire);
    assert!(r.is_ok());
    let total = wire.len();
    let k: usize = match split {
        Some(k) => k, // one concrete split position per call (buffer lengths stay concrete)
        None => kani::any(),
    };
    kani::assume(k <= total);
    kani::cover!(split.is_some() || (k > 0 && k < total));

    let mut dec = Codec::new();
    let mut src = BytesMut::with_capacity(32);
    src.extend_from_slice(&wire[..k]);
    let first = Decoder::decode(&mut dec, &mut src);
    let got = if k < total {
        // an incomplete frame is never a frame and never an error
        match &first {
            Ok(None) => {}
            _ => assert!(false),
        }
        src.extend_from_slice(&wire[k..]);
        Decoder::decode(&mut dec, &mut src)
    } else {
        first
    };
    match &got {
        Ok(Some(f)) => {
            // same kind, id mirrored, same payload; whole frame consumed
            let rid = f.remote_id();
            let back = rid.into_local();
            assert!(back.num == num);
            assert!(back.role == !role);
            match (kind, f) {
                (0, Frame::Open { .. }) | (2, Frame::Close { .. }) | (3, Frame::Reset { .. }) => {}
                (1, Frame::Data { data, .. }) => {
                    assert!(data.len() == payload.len());
                    let mut i = 0;
                    while i < payload.len() {
                        assert!(data[i] == payload[i]);
                        i += 1;
                    }
                }
                _ => assert!(false),
            }
            assert!(src.is_empty());
        }
        _ => assert!(false),
    }
    std::mem::forget(got);
    std::mem::forget(src);
    std::mem::forget(wire);
}

/// small ids (one-byte header), every kind and role, payload 0..=3 bytes, every split
#[kani::proof]
#[kani::unwind(12)]
#[kani::stub(alloc::fmt::format, no_format)]
fn lemma_round_trip_any_split_small_id() {
    let kind: u8 = kani::any();
    kani::assume(kind <= 3);
    let num: u64 = kani::any();
    kani::assume(num < 16);
    let role = any_role();
    kani::assume(kind != 0 || role == Endpoint::Dialer);
    let payload: [u8; 3] = kani::any();
    let n: usize = kani::any();
    kani::assume(n <= 3);
    round_trip_split(kind, num, role, &payload[..n], None);
}

/// one-byte header (id < 16), every kind and role, Data payload of exactly one (symbolic)
/// byte: the wire is 2 bytes (Open/Close/Reset) or 3 bytes (Data); split after K bytes,
/// one harness per K = 0..=3 — jointly every split of these frames into two reads
fn round_trip_small_id_split_at(k: usize) {
    let kind: u8 = kani::any();
    kani::assume(kind <= 3);
    // the split must lie inside the frame: 3 bytes on the wire for Data, 2 otherwise
    kani::assume(k <= 2 || kind == 1);
    let num: u64 = kani::any();
    kani::assume(num < 16);
    let role = any_role();
    kani::assume(kind != 0 || role == Endpoint::Dialer);
    let payload: [u8; 1] = kani::any();
    kani::cover!(kind == 1);
    round_trip_split(kind, num, role, &payload, Some(k));
}
macro_rules! split_harness {
    ($name:ident, $k:literal) => {
        #[kani::proof]
        #[kani::unwind(12)]
        #[kani::stub(alloc::fmt::format, no_format)]
        fn $name() {
            round_trip_small_id_split_at($k);
        }
    };
}
split_harness!(lemma_round_trip_small_id_split_at_0, 0);
split_harness!(lemma_round_trip_small_id_split_at_1, 1);
split_harness!(lemma_round_trip_small_id_split_at_2, 2);
split_harness!(lemma_round_trip_small_id_split_at_3, 3);

/// every id below 2^61 (header varint of 1..=9 bytes), every kind and role, every split;
/// payload empty or one byte
#[kani::proof]
#[kani::unwind(12)]
#[kani::stub(alloc::fmt::format, no_format)]
fn lemma_round_trip_any_split_any_id() {
    let kind: u8 = kani::any();
    kani::assume(kind <= 3);
    let num: u64 = kani::any();
    kani::assume(num < (1u64 << 61));
    kani::cover!(num >= (1u64 << 56));
    let role = any_role();
    kani::assume(kind != 0 || role == Endpoint::Dialer);
    let payload: [u8; 1] = kani::any();
    round_trip_split(kind, num, role, &payload, None);
}

/// (2)+(3)+(4) decode on EVERY 12-byte read buffer from the initial state.
#[kani::proof]
#[kani::unwind(14)]
#[kani::stub(alloc::fmt::format, no_format)]
fn contract_decode_arbitrary_bytes() {
    let raw: [u8; 12] = kani::any();
    let mut src = buf_from(&raw);
    let cap0 = src.capacity();
    let mut dec = Codec::new();
    let r = Decoder::decode(&mut dec, &mut src); // (4): returning at all = no panic
    if let Some((header, i)) = spec_varint(&raw, 0) {
        if let Some((len, j)) = spec_varint(&raw, i) {
            kani::cover!(len > MIB as u64 && j == 12);
            kani::cover!(len <= 12 - j as u64 && header & 7 == 7);
            if len > MIB as u64 {
                // (2) rejected from the two varints alone: an error, not "need more bytes",
                // and no room was reserved for the payload
                assert!(r.is_err());
                assert!(src.capacity() <= cap0);
            } else if len <= (12 - j) as u64 && header & 7 == 7 {
                // (3) unknown frame type
                assert!(r.is_err());
            }
        }
    }
    std::mem::forget(r);
    std::mem::forget(src);
}

/// (2) over the FULL width of the length varint: a one-byte header followed by a length
/// varint of exactly W bytes (W = 1..=9, one call per width so that the buffer length is
/// concrete), the read buffer ending right after it: `len > 1 MiB => Err` with nothing
/// reserved, `0 < len <= 1 MiB` (payload not there yet) => Ok(None), never a frame.
fn length_limit_width<const W: usize>() {
    let raw: [u8; 10] = kani::any();
    kani::assume(raw[0] < 0x80);
    // the length varint occupies raw[1..=W]: continuation bits on all but the last byte
    let mut i = 1;
    while i < W {
        kani::assume(raw[i] >= 0x80);
        i += 1;
    }
    kani::assume(raw[W] < 0x80);
    let mut src = buf_from(&raw[..W + 1]);
    let cap0 = src.capacity();
    let mut dec = Codec::new();
    let r = Decoder::decode(&mut dec, &mut src);
    match spec_varint(&raw, 1) {
        Some((len, j)) => {
            assert!(j == W + 1);
            // 1 MiB = 2^20 needs 3 varint bytes: both sides of the limit exist from W = 3 on
            kani::cover!(W < 3 || len == MIB as u64);
            kani::cover!(W < 3 || len == MIB as u64 + 1);
            if len > MIB as u64 {
                assert!(r.is_err());
                assert!(src.capacity() <= cap0);
            } else if len > 0 {
                match &r {
                    Ok(None) => {}
                    Ok(Some(_)) => assert!(false),
                    // non-minimal encodings of a small length may be refused
                    Err(_) => assert!(raw[j - 1] == 0),
                }
            }
        }
        None => assert!(false),
    }
    std::mem::forget(r);
    std::mem::forget(src);
}

macro_rules! length_limit_harness {
    ($name:ident, $w:literal) => {
        #[kani::proof]
        #[kani::unwind(14)]
        #[kani::stub(alloc::fmt::format, no_format)]
        fn $name() {
            length_limit_width::<$w>();
        }
    };
}
length_limit_harness!(contract_decode_length_limit_width_1, 1);
length_limit_harness!(contract_decode_length_limit_width_2, 2);
length_limit_harness!(contract_decode_length_limit_width_3, 3);
length_limit_harness!(contract_decode_length_limit_width_4, 4);
length_limit_harness!(contract_decode_length_limit_width_5, 5);
length_limit_harness!(contract_decode_length_limit_width_6, 6);
length_limit_harness!(contract_decode_length_limit_width_7, 7);
length_limit_harness!(contract_decode_length_limit_width_8, 8);
length_limit_harness!(contract_decode_length_limit_width_9, 9);

/// Vacuity canary: must FAIL (claims the role is NOT mirrored).
#[kani::proof]
#[kani::unwind(12)]
#[kani::stub(alloc::fmt::format, no_format)]
fn canary_role_not_mirrored() {
    let id = LocalStreamId { num: 5, role: Endpoint::Listener };
    let mut enc = Codec::new();
    let mut wire = BytesMut::with_capacity(32);
    let _ = Encoder::encode(&mut enc, Frame::Close { stream_id: id }, &mut wire);
    let mut dec = Codec::new();
    let got = Decoder::decode(&mut dec, &mut wire);
    match &got {
        Ok(Some(f)) => assert!(f.remote_id().into_local().role == Endpoint::Listener),
        _ => {}
    }
    std::mem::forget(got);
    std::mem::forget(wire);
}
