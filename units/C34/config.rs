// C34 — every Config returned by ConfigBuilder::build satisfies, for the DEFAULT
// and for EVERY per-topic mesh parameter set:
//   mesh_outbound_min <= mesh_n_low <= mesh_n <= mesh_n_high, 2*mesh_outbound_min <= mesh_n,
// and history_gossip <= history_length, max_transmit_size >= 100 (default and per topic).
use crate::topic::TopicHash;

fn small() -> usize {
    kani::any::<u8>() as usize
}

fn mesh_ok(c: &Config, t: Option<&TopicHash>) -> bool {
    let (n, lo, hi, out) = match t {
        None => (c.mesh_n(), c.mesh_n_low(), c.mesh_n_high(), c.mesh_outbound_min()),
        Some(t) => (c.mesh_n_for_topic(t), c.mesh_n_low_for_topic(t), c.mesh_n_high_for_topic(t), c.mesh_outbound_min_for_topic(t)),
    };
    out <= lo && lo <= n && n <= hi && 2 * out <= n
}

/// default parameters only (no per-topic configuration at all)
#[kani::proof]
#[kani::unwind(8)]
fn build_validates_default_parameters() {
    let mut b = ConfigBuilder::default();
    b.mesh_n(small()).mesh_n_low(small()).mesh_n_high(small()).mesh_outbound_min(small());
    b.history_length(small()).history_gossip(small());
    b.max_transmit_size(kani::any::<u16>() as usize);
    match b.build() {
        Ok(c) => {
            assert!(mesh_ok(&c, None));
            assert!(c.history_gossip() <= c.history_length());
            assert!(c.max_transmit_size() >= 100);
            std::mem::forget(c);
        }
        Err(e) => std::mem::forget(e),
    }
    std::mem::forget(b);
}

/// a topic configured through the per-topic mesh setters
#[kani::proof]
#[kani::unwind(8)]
fn build_validates_topic_configured_by_setters() {
    let t = TopicHash::from_raw("t");
    let mut b = ConfigBuilder::default();
    b.mesh_n_for_topic(small(), t.clone());
    b.mesh_n_low_for_topic(small(), t.clone());
    b.mesh_n_high_for_topic(small(), t.clone());
    b.mesh_outbound_min_for_topic(small(), t.clone());
    if kani::any() {
        b.max_transmit_size_for_topic(kani::any::<u16>() as usize, t.clone());
    }
    match b.build() {
        Ok(c) => {
            assert!(mesh_ok(&c, Some(&t)));
            assert!(mesh_ok(&c, None));
            assert!(c.max_transmit_size_for_topic(&t) >= 100);
            std::mem::forget(c);
        }
        Err(e) => std::mem::forget(e),
    }
    std::mem::forget(b);
}

/// a topic configured through set_topic_config
#[kani::proof]
#[kani::unwind(8)]
fn build_validates_topic_configured_by_set_topic_config() {
    let t = TopicHash::from_raw("t");
    let mut b = ConfigBuilder::default();
    b.set_topic_config(t.clone(), TopicMeshConfig { mesh_n: small(), mesh_n_low: small(), mesh_n_high: small(), mesh_outbound_min: small() });
    match b.build() {
        Ok(c) => {
            assert!(mesh_ok(&c, Some(&t)));
            std::mem::forget(c);
        }
        Err(e) => std::mem::forget(e),
    }
    std::mem::forget(b);
}

/// the library defaults are accepted (the contract above is not vacuous)
#[kani::proof]
#[kani::unwind(8)]
fn defaults_are_accepted() {
    let b = ConfigBuilder::default();
    let r = b.build();
    assert!(r.is_ok());
    std::mem::forget(r);
    std::mem::forget(b);
}

/// Vacuity canary: must FAIL.
#[kani::proof]
#[kani::unwind(8)]
fn canary_build_never_fails() {
    let mut b = ConfigBuilder::default();
    b.history_length(small()).history_gossip(small());
    let r = b.build();
    assert!(r.is_ok());
    std::mem::forget(r);
    std::mem::forget(b);
}
