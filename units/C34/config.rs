// C34 — every Config returned by ConfigBuilder::build satisfies, for the DEFAULT
// and for EVERY per-topic mesh parameter set:
//   mesh_outbound_min <= mesh_n_low <= mesh_n <= mesh_n_high, 2*mesh_outbound_min <= mesh_n,
// and history_gossip <= history_length, max_transmit_size >= 100 (default and per topic).
use crate::topic::TopicHash;

/// any parameter value whose double is representable (2*mesh_outbound_min must not
/// overflow usize: stated precondition, see trusted_base)
fn small() -> usize {
    let x: usize = kani::any();
    kani::assume(x <= usize::MAX / 2);
    x
}

fn mesh_ok(c: &Config, t: Option<&TopicHash>) -> bool {
    let (n, lo, hi, out) = match t {
        None => (c.mesh_n(), c.mesh_n_low(), c.mesh_n_high(), c.mesh_outbound_min()),
        Some(t) => (c.mesh_n_for_topic(t), c.mesh_n_low_for_topic(t), c.mesh_n_high_for_topic(t), c.mesh_outbound_min_for_topic(t)),
    };
    out <= lo && lo <= n && n <= hi && 2 * out <= n
}

/// default mesh parameters (no per-topic configuration at all)
#[kani::proof]
#[kani::unwind(8)]
fn build_validates_default_mesh_parameters() {
    let mut b = ConfigBuilder::default();
    b.mesh_n(small()).mesh_n_low(small()).mesh_n_high(small()).mesh_outbound_min(small());
    match b.build() {
        Ok(c) => {
            kani::assert(mesh_ok(&c, None), "C34 accepted config: default mesh parameters violate the mesh inequalities");
            std::mem::forget(c);
        }
        Err(e) => std::mem::forget(e),
    }
    std::mem::forget(b);
}

/// history_gossip <= history_length
#[kani::proof]
#[kani::unwind(8)]
fn build_validates_history() {
    let mut b = ConfigBuilder::default();
    b.history_length(small()).history_gossip(small());
    match b.build() {
        Ok(c) => {
            assert!(c.history_gossip() <= c.history_length());
            std::mem::forget(c);
        }
        Err(e) => std::mem::forget(e),
    }
    std::mem::forget(b);
}

/// default max_transmit_size >= 100
#[kani::proof]
#[kani::unwind(8)]
fn build_validates_default_max_transmit_size() {
    let mut b = ConfigBuilder::default();
    b.max_transmit_size(kani::any::<usize>());
    match b.build() {
        Ok(c) => {
            kani::assert(c.max_transmit_size() >= 100, "C34 accepted config: default max_transmit_size < 100");
            std::mem::forget(c);
        }
        Err(e) => std::mem::forget(e),
    }
    std::mem::forget(b);
}

/// the per-topic parameter set stored for `t`, read from the accepted Config's state
fn topic_set_ok(c: &Config, t: &TopicHash) -> bool {
    match c.topic_configuration.topic_mesh_params.get(t) {
        Some(p) => {
            p.mesh_outbound_min <= p.mesh_n_low
                && p.mesh_n_low <= p.mesh_n
                && p.mesh_n <= p.mesh_n_high
                && 2 * p.mesh_outbound_min <= p.mesh_n
        }
        None => true,
    }
}

/// a topic whose mesh parameters AND transmit size are configured (the topic is a key of
/// max_transmit_sizes): per-topic inequalities and per-topic size
#[kani::proof]
#[kani::unwind(8)]
fn build_validates_topic_with_transmit_size() {
    let t = TopicHash::from_raw("");
    let mut b = ConfigBuilder::default();
    b.set_topic_config(t.clone(), TopicMeshConfig { mesh_n: small(), mesh_n_low: small(), mesh_n_high: small(), mesh_outbound_min: small() });
    b.max_transmit_size_for_topic(kani::any::<usize>(), t.clone());
    match b.build() {
        Ok(c) => {
            assert!(topic_set_ok(&c, &t));
            assert!(c.protocol.max_transmit_sizes.get(&t).is_some_and(|s| *s >= 100));
            std::mem::forget(c);
        }
        Err(e) => std::mem::forget(e),
    }
    std::mem::forget(b);
    std::mem::forget(t);
}

/// a topic configured through one of the per-topic mesh setters only
#[kani::proof]
#[kani::unwind(8)]
fn build_validates_topic_configured_by_setter() {
    let t = TopicHash::from_raw("");
    let mut b = ConfigBuilder::default();
    b.mesh_n_for_topic(small(), t.clone());
    match b.build() {
        Ok(c) => {
            // kani::assert: the check description is the message verbatim (assert! wraps it in quotes);
            // known_findings.json keys on it
            kani::assert(topic_set_ok(&c, &t), "C34 accepted config: topic configured by mesh_n_for_topic only violates the mesh inequalities");
            std::mem::forget(c);
        }
        Err(e) => std::mem::forget(e),
    }
    std::mem::forget(b);
    std::mem::forget(t);
}

/// a topic configured through set_topic_config only
#[kani::proof]
#[kani::unwind(8)]
fn build_validates_topic_configured_by_set_topic_config() {
    let t = TopicHash::from_raw("");
    let mut b = ConfigBuilder::default();
    b.set_topic_config(t.clone(), TopicMeshConfig { mesh_n: small(), mesh_n_low: small(), mesh_n_high: small(), mesh_outbound_min: small() });
    match b.build() {
        Ok(c) => {
            kani::assert(topic_set_ok(&c, &t), "C34 accepted config: topic configured by set_topic_config only violates the mesh inequalities");
            std::mem::forget(c);
        }
        Err(e) => std::mem::forget(e),
    }
    std::mem::forget(b);
    std::mem::forget(t);
}

/// the library defaults are accepted (the contract above is not vacuous)
#[kani::proof]
#[kani::unwind(8)]
fn defaults_are_accepted() {
    let b = ConfigBuilder::default();
    let r = b.build();
    assert!(r.is_ok());
    std::mem::forget(r);
    std::mem::forget(b);
}

/// Vacuity canary: must FAIL.
#[kani::proof]
#[kani::unwind(8)]
fn canary_build_never_fails() {
    let mut b = ConfigBuilder::default();
    b.history_length(small()).history_gossip(small());
    let r = b.build();
    assert!(r.is_ok());
    std::mem::forget(r);
    std::mem::forget(b);
}
