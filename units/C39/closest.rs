// C39 — ClosestPeersIter (protocols/kad/src/query/peers/closest.rs).
//
// Obligations (DESIGN §4 C39):
//   * `at_capacity` truth table (complete: every state, every usize).
//   * `next`: one step of the REAL function from any iterator over 1..3 known peers
//     (real std BTreeMap, concrete distances 2 < 4 < 6, every peer in ANY PeerState with
//     ANY timeout, any config, any `now`) that satisfies the bookkeeping invariant
//     `num_waiting == #Waiting peers`.
//   * `into_result`: only Succeeded peers, in increasing distance, at most num_results.
//   * `on_success` / `on_failure`: K-fragments of the bodies AFTER the Sha256 key
//     computation (`Key::from(PeerId)`), the key being a parameter (declared rewrite).
//
include!(concat!(env!("LIBP2P_VERIF_GEN"), "/C39/iter_fragments.rs"));

// Keys are built from raw bytes (units/C41/key_helper.rs): Sha256 is never executed.

fn peer(d: u8) -> PeerId {
    PeerId::from_multihash(libp2p_core::multihash::Multihash::<64>::wrap(0, &[d]).unwrap()).unwrap()
}

/// the key of peer `d` lies at XOR distance `d` from the all-zero target
fn key_of(d: u8) -> Key<PeerId> {
    let mut b = [0u8; 32];
    b[31] = d;
    crate::kbucket::verif::c41::key_with_bytes(peer(d), b)
}

fn zero_target() -> KeyBytes {
    KeyBytes::from(crate::kbucket::verif::c41::key_with_bytes((), [0u8; 32]))
}

fn instant_at(secs: u64) -> Instant {
    let zero: Instant = unsafe { std::mem::zeroed() };
    zero + Duration::from_secs(secs)
}

fn any_instant() -> Instant {
    let s: u64 = kani::any();
    kani::assume(s <= 1 << 40);
    instant_at(s)
}

fn any_peer_state() -> PeerState {
    let t: u8 = kani::any();
    match t {
        0 => PeerState::NotContacted,
        1 => PeerState::Waiting(any_instant()),
        2 => PeerState::Unresponsive,
        3 => PeerState::Failed,
        _ => PeerState::Succeeded,
    }
}

fn any_state() -> State {
    let t: u8 = kani::any();
    match t {
        0 => State::Iterating { no_progress: kani::any() },
        1 => State::Stalled,
        _ => State::Finished,
    }
}

fn tag(s: &PeerState) -> u8 {
    match s {
        PeerState::NotContacted => 0,
        PeerState::Waiting(_) => 1,
        PeerState::Unresponsive => 2,
        PeerState::Failed => 3,
        PeerState::Succeeded => 4,
    }
}

fn any_config(max: usize) -> ClosestPeersIterConfig {
    let (p, r): (usize, usize) = (kani::any(), kani::any());
    kani::assume(1 <= p && p <= max && 1 <= r && r <= max);
    let t: u64 = kani::any();
    kani::assume(t <= 1 << 20);
    ClosestPeersIterConfig {
        parallelism: NonZeroUsize::new(p).unwrap(),
        num_results: NonZeroUsize::new(r).unwrap(),
        peer_timeout: Duration::from_secs(t),
    }
}

/// the statement's bound on in-flight requests
fn bound(state: &State, c: &ClosestPeersIterConfig) -> usize {
    match state {
        State::Stalled => usize::max(c.num_results.get(), c.parallelism.get()),
        _ => c.parallelism.get(),
    }
}

/// an iterator over the peers 2, 4, .. 2N (distance = peer number, so that new peers can
/// be placed before, between and behind them), each in any state
fn any_iter<const N: usize>() -> (ClosestPeersIter, [u8; 3]) {
    let mut closest_peers = BTreeMap::new();
    let mut tags = [9u8; 3];
    let mut waiting = 0;
    let mut i = 0;
    while i < N {
        let st = any_peer_state();
        tags[i] = tag(&st);
        if tags[i] == 1 {
            waiting += 1;
        }
        let key = key_of(2 * (i as u8 + 1));
        let d = key.distance(&zero_target());
        closest_peers.insert(d, Peer { key, state: st });
        i += 1;
    }
    let it = ClosestPeersIter {
        config: any_config(4),
        target: zero_target(),
        state: any_state(),
        closest_peers,
        // bookkeeping invariant: num_waiting counts exactly the Waiting peers
        num_waiting: waiting,
    };
    (it, tags)
}

fn tags_of<const N: usize>(it: &ClosestPeersIter) -> [u8; 3] {
    let mut out = [9u8; 3];
    let mut i = 0;
    for p in it.closest_peers.values() {
        if i < 3 {
            out[i] = tag(&p.state);
        }
        i += 1;
    }
    assert!(i == N);
    out
}

fn count(tags: &[u8; 3], t: u8) -> usize {
    (tags[0] == t) as usize + (tags[1] == t) as usize + (tags[2] == t) as usize
}

/// at_capacity <=> the number of in-flight requests has reached the statement's bound
/// (parallelism while iterating, max(num_results, parallelism) while stalled; a
/// finished iterator never starts a request).
#[kani::proof]
fn contract_at_capacity() {
    let (p, r): (usize, usize) = (kani::any(), kani::any());
    kani::assume(p >= 1 && r >= 1);
    let it = ClosestPeersIter {
        config: ClosestPeersIterConfig {
            parallelism: NonZeroUsize::new(p).unwrap(),
            num_results: NonZeroUsize::new(r).unwrap(),
            peer_timeout: Duration::from_secs(10),
        },
        target: zero_target(),
        state: any_state(),
        closest_peers: BTreeMap::new(),
        num_waiting: kani::any(),
    };
    let got = it.at_capacity();
    let want = match it.state {
        State::Finished => true,
        State::Stalled => it.num_waiting >= usize::max(r, p),
        State::Iterating { .. } => it.num_waiting >= p,
    };
    assert!(got == want);
    std::mem::forget(it);
}

/// One step of `next` from ANY iterator over N known peers.
fn next_contract<const N: usize>() {
    let (mut it, before) = any_iter::<N>();
    let now = any_instant();
    let state0 = it.state;
    let nw0 = it.num_waiting;
    let b = bound(&state0, &it.config);
    let num_results = it.config.num_results.get();
    let (kind, who): (u8, Option<PeerId>) = match it.next(now) {
        PeersIterState::Waiting(Some(p)) => (0, Some(*p)),
        PeersIterState::Waiting(None) => (1, None),
        PeersIterState::WaitingAtCapacity => (2, None),
        PeersIterState::Finished => (3, None),
    };
    let after = tags_of::<N>(&it);
    // bookkeeping invariant preserved
    assert!(it.num_waiting == count(&after, 1));
    if let State::Finished = state0 {
        // a finished iterator stays finished and changes nothing
        assert!(kind == 3);
        assert!(after[0] == before[0] && after[1] == before[1] && after[2] == before[2]);
        assert!(it.num_waiting == nw0);
    }
    if kind == 0 {
        // a new request is started only below the bound, to a peer not contacted before
        assert!(nw0 < b);
        assert!(it.num_waiting <= b);
        let mut hits = 0;
        let mut i = 0;
        while i < N {
            if who == Some(peer(2 * (i as u8 + 1))) {
                hits += 1;
                assert!(before[i] == 0 && after[i] == 1);
            } else {
                // every other peer: unchanged, or its waiting time ran out
                assert!(after[i] == before[i] || (before[i] == 1 && after[i] == 2));
            }
            i += 1;
        }
        assert!(hits == 1);
    } else {
        // no request started: in-flight requests never increase
        assert!(it.num_waiting <= nw0);
        let mut i = 0;
        while i < N {
            assert!(after[i] == before[i] || (before[i] == 1 && after[i] == 2));
            i += 1;
        }
    }
    if kind == 3 {
        assert!(matches!(it.state, State::Finished));
        if !matches!(state0, State::Finished) {
            // finished on its own: no peer closer than the farthest RETURNED peer (the
            // returned ones are the first num_results Succeeded) is left uncontacted or waiting
            let mut returned = 0;
            let mut last = N;
            let mut i = 0;
            while i < N {
                if after[i] == 4 && returned < num_results {
                    returned += 1;
                    last = i;
                }
                i += 1;
            }
            let mut j = 0;
            while j < N {
                if last < N && j < last {
                    assert!(after[j] != 0 && after[j] != 1);
                }
                j += 1;
            }
        }
    } else {
        assert!(!matches!(it.state, State::Finished));
    }
    kani::cover!(kind == 0);
    kani::cover!(kind == 1);
    kani::cover!(kind == 2);
    kani::cover!(kind == 3 && !matches!(state0, State::Finished));
    std::mem::forget(it);
}

fn count_from(tags: &[u8; 3], from: usize, n: usize) -> usize {
    let mut c = 0;
    let mut j = from;
    while j < n {
        if tags[j] == 4 {
            c += 1;
        }
        j += 1;
    }
    c
}

#[kani::proof]
#[kani::unwind(5)]
fn contract_next_1_peer() {
    next_contract::<1>()
}
#[kani::proof]
#[kani::unwind(5)]
fn contract_next_2_peers() {
    next_contract::<2>()
}
#[kani::proof]
#[kani::unwind(5)]
fn contract_next_3_peers() {
    next_contract::<3>()
}

/// into_result: only peers that responded, in increasing distance, at most num_results
fn into_result_contract<const N: usize>() {
    let (it, tags) = any_iter::<N>();
    let num_results = it.config.num_results.get();
    let mut out = [0u8; 3];
    let mut n = 0;
    for p in it.into_result() {
        assert!(n < 3);
        // the peer number is the single digest byte
        let mut d = 0u8;
        let mut i = 0;
        while i < N {
            if p == peer(2 * (i as u8 + 1)) {
                d = i as u8 + 1;
            }
            i += 1;
        }
        assert!(d != 0); // a known peer
        out[n] = d;
        n += 1;
    }
    assert!(n <= num_results);
    assert!(n == usize::min(num_results, count(&tags, 4)));
    let mut j = 0;
    while j < n {
        assert!(tags[out[j] as usize - 1] == 4); // it responded
        if j > 0 {
            assert!(out[j - 1] < out[j]); // increasing distance (distance = peer number)
        }
        j += 1;
    }
    // and they are the CLOSEST responders: no Succeeded peer before the last returned one is skipped
    if n > 0 {
        let last = out[n - 1] as usize;
        assert!(count_from(&tags, 0, last) == n);
    }
    kani::cover!(n == 2);
}

#[kani::proof]
#[kani::unwind(5)]
fn contract_into_result_2_peers() {
    into_result_contract::<2>()
}
#[kani::proof]
#[kani::unwind(5)]
fn contract_into_result_3_peers() {
    into_result_contract::<3>()
}

/// Vacuity canary: must FAIL (next does start requests).
#[kani::proof]
#[kani::unwind(5)]
fn canary_next_never_starts_a_request() {
    let (mut it, _) = any_iter::<1>();
    let now = any_instant();
    let started = matches!(it.next(now), PeersIterState::Waiting(Some(_)));
    assert!(!started);
    std::mem::forget(it);
}

/// on_success / on_failure (K-fragments: the bodies with the Sha256 key computation
/// replaced by a key parameter) on an iterator over N known peers; the responder is one of
/// them or an unknown peer; `C` is the distance of one reported closer peer (0: none;
/// 1: closer than all; 3: between; 2 / 4: already known; 7: farthest).
fn report_contract<const N: usize, const C: u8, const FAIL: bool>() {
    let (mut it, before) = any_iter::<N>();
    let state0 = it.state;
    let nw0 = it.num_waiting;
    let par = it.config.parallelism.get();
    // the statement's bound holds before the step
    kani::assume(nw0 <= bound(&state0, &it.config));
    let r: u8 = kani::any();
    kani::assume(1 <= r && r <= N as u8 + 1); // r == N + 1: a peer the iterator does not know
    let responder = key_of(2 * r);
    let fin = matches!(state0, State::Finished);
    let known = r as usize <= N;
    let t = if known { before[r as usize - 1] } else { 9 };
    let accepted = !fin && known && (t == 1 || t == 2);
    let ret = if FAIL {
        it.verif_on_failure(&peer(2 * r), responder)
    } else if C == 0 {
        it.verif_on_success(&peer(2 * r), responder, std::iter::empty())
    } else {
        it.verif_on_success(&peer(2 * r), responder, std::iter::once(key_of(C)))
    };
    assert!(ret == accepted);
    let is_new = !FAIL && accepted && C != 0 && (C % 2 == 1 || C as usize > 2 * N);
    assert!(it.closest_peers.len() == N + is_new as usize);
    // read the states back in distance order, skipping the newly learned peer
    let mut after = [9u8; 3];
    let mut i = 0;
    for (d, p) in it.closest_peers.iter() {
        let dist = d.0.low_u32() as u8;
        if dist == C && is_new {
            // a newly learned peer has not been contacted
            assert!(tag(&p.state) == 0);
        } else {
            assert!(i < N && dist == 2 * (i as u8 + 1)); // increasing distance, nobody lost
            after[i] = tag(&p.state);
            i += 1;
        }
    }
    assert!(i == N);
    // bookkeeping invariant preserved
    assert!(it.num_waiting == count(&after, 1));
    let mut j = 0;
    while j < N {
        if accepted && j == r as usize - 1 {
            // only a peer that responded becomes Succeeded (Failed on failure)
            assert!(after[j] == if FAIL { 3 } else { 4 });
        } else {
            assert!(after[j] == before[j]);
        }
        j += 1;
    }
    if !accepted {
        assert!(it.num_waiting == nw0);
        assert!(it.state == state0);
    }
    if FAIL {
        assert!(it.state == state0);
    }
    // Statement, read strictly: never more in-flight requests than parallelism, or
    // max(num_results, parallelism) when stalled - also right after this report.
    kani::assert(
        it.num_waiting <= bound(&it.state, &it.config),
        "C39: more in-flight requests than parallelism while not stalled (Stalled -> Iterating keeps the stalled allowance)",
    );
    let _ = par;
    kani::cover!(accepted);
    kani::cover!(accepted && matches!(state0, State::Stalled) && matches!(it.state, State::Iterating { .. }));
    std::mem::forget(it);
}

#[kani::proof]
#[kani::unwind(6)]
fn contract_on_failure_3_peers() {
    report_contract::<3, 0, true>()
}
#[kani::proof]
#[kani::unwind(6)]
fn contract_on_success_no_closer_peers() {
    report_contract::<3, 0, false>()
}
#[kani::proof]
#[kani::unwind(6)]
fn contract_on_success_closest_new_peer() {
    report_contract::<3, 1, false>()
}
#[kani::proof]
#[kani::unwind(6)]
fn contract_on_success_middle_new_peer() {
    report_contract::<3, 3, false>()
}
#[kani::proof]
#[kani::unwind(6)]
fn contract_on_success_known_peer_reported() {
    report_contract::<3, 4, false>()
}
#[kani::proof]
#[kani::unwind(6)]
fn contract_on_success_farthest_new_peer() {
    report_contract::<3, 7, false>()
}
