// C41 — kad MemoryStore (std HashMap/HashSet -> dependency shim).  One step from
// ANY small store state under ANY small configuration, compared with the
// abstract model of the statement:
//   records  : finite map  Key -> Record          (bounded by max_records)
//   providers: finite map  Key -> list of ProviderRecord, one per provider
//              (each list bounded by max_providers_per_key)
//   provided : the set of exactly the local node's provider records
// The store is built as a struct literal (the constructor derives the local
// kbucket key through Sha256, which the store never reads: only `preimage()`).

fn peer(d: u8) -> PeerId {
    PeerId::from_multihash(Multihash::<64>::wrap(0, &[d]).unwrap()).unwrap()
}

const LOCAL: u8 = 0xAA;

fn local() -> PeerId {
    peer(LOCAL)
}

/// one of three peers: the local node or one of two others
fn any_peer_tag() -> u8 {
    let t: u8 = kani::any();
    kani::assume(t == LOCAL || t == 1 || t == 2);
    t
}

fn key(b: u8) -> Key {
    Key::from(vec![b])
}

fn rec(k: u8, v: u8, vlen: usize) -> Record {
    let mut value = Vec::with_capacity(4);
    let mut i = 0;
    while i < vlen {
        value.push(v);
        i += 1;
    }
    Record { key: key(k), value, publisher: None, expires: None }
}

/// `tag` distinguishes two records of the same (key, provider): a refreshed record
/// carries a different expiry.
fn prov(k: u8, p: u8, tag: u8) -> ProviderRecord {
    let expires = if tag == 0 {
        None
    } else {
        let zero: Instant = unsafe { std::mem::zeroed() };
        Some(zero + std::time::Duration::from_secs(tag as u64))
    };
    ProviderRecord { key: key(k), provider: peer(p), expires, addresses: Vec::new() }
}

fn any_config() -> MemoryStoreConfig {
    let (a, b, c, d): (u8, u8, u8, u8) = (kani::any(), kani::any(), kani::any(), kani::any());
    kani::assume(a <= 3 && b <= 3 && c <= 2 && d <= 2);
    MemoryStoreConfig {
        max_records: a as usize,
        max_value_bytes: b as usize,
        max_providers_per_key: c as usize,
        max_provided_keys: d as usize,
    }
}

fn empty_store() -> MemoryStore {
    MemoryStore {
        local_key: crate::kbucket::verif::c41::key_with_bytes(local(), [0u8; 32]),
        config: any_config(),
        records: HashMap::default(),
        providers: HashMap::default(),
        provided: HashSet::default(),
    }
}

/// ANY store holding up to two records (distinct symbolic one-byte keys)
fn any_record_store() -> MemoryStore {
    let mut s = empty_store();
    let k1: u8 = kani::any();
    let k2: u8 = kani::any();
    kani::assume(k1 != k2);
    if kani::any() {
        s.records.insert(key(k1), rec(k1, kani::any(), 1));
        if kani::any() {
            s.records.insert(key(k2), rec(k2, kani::any(), 1));
        }
    }
    s
}

fn value_of(s: &MemoryStore, k: &Key) -> Option<(usize, u8)> {
    s.get(k).map(|r| (r.value.len(), if r.value.is_empty() { 0 } else { r.value[0] }))
}

/// put / get / remove behave like a map bounded by max_records / max_value_bytes
#[kani::proof]
#[kani::unwind(8)]
fn contract_put_get_remove() {
    let mut s = any_record_store();
    let n0 = s.records.len();
    let k: u8 = kani::any();
    let other: u8 = kani::any();
    kani::assume(other != k);
    let vlen: usize = kani::any();
    kani::assume(vlen <= 3);
    let v: u8 = kani::any();
    let (kk, ko) = (key(k), key(other));
    let before = value_of(&s, &kk);
    let other_before = value_of(&s, &ko);
    let max_records = s.config.max_records;
    let max_value_bytes = s.config.max_value_bytes;
    let r = s.put(rec(k, v, vlen));
    // refused exactly when the value has max_value_bytes or more, or the key is new
    // and max_records are already stored
    let too_large = vlen >= max_value_bytes;
    let full = before.is_none() && n0 >= max_records;
    assert!(r.is_ok() == !(too_large || full));
    if r.is_ok() {
        // get returns the latest put; the store grows by one only for a new key
        assert!(value_of(&s, &kk) == Some((vlen, if vlen == 0 { 0 } else { v })));
        assert!(s.records.len() == n0 + before.is_none() as usize);
    } else {
        // a refused put changes nothing
        assert!(value_of(&s, &kk) == before);
        assert!(s.records.len() == n0);
    }
    // frame: any other key is untouched
    assert!(value_of(&s, &ko) == other_before);
    // remove deletes exactly that key
    let n1 = s.records.len();
    let had = value_of(&s, &kk).is_some();
    s.remove(&kk);
    assert!(value_of(&s, &kk).is_none());
    assert!(value_of(&s, &ko) == other_before);
    assert!(s.records.len() == n1 - had as usize);
    std::mem::forget((s, kk, ko));
}

/// ANY store with up to one provider key holding up to two provider records of
/// distinct providers (each possibly the local node, each fresh or refreshed),
/// `provided` in sync with it.
fn any_provider_store() -> (MemoryStore, u8) {
    let mut s = empty_store();
    let k: u8 = kani::any();
    if kani::any() {
        let mut list: SmallVec<[ProviderRecord; K_VALUE.get()]> = SmallVec::new();
        let p1 = any_peer_tag();
        let t1: u8 = if kani::any() { 1 } else { 0 };
        list.push(prov(k, p1, t1));
        if p1 == LOCAL {
            s.provided.insert(prov(k, p1, t1));
        }
        if kani::any() {
            let p2 = any_peer_tag();
            kani::assume(p2 != p1);
            let t2: u8 = if kani::any() { 1 } else { 0 };
            list.push(prov(k, p2, t2));
            if p2 == LOCAL {
                s.provided.insert(prov(k, p2, t2));
            }
        }
        s.providers.insert(key(k), list);
    }
    (s, k)
}

fn listed(s: &MemoryStore, k: &Key, p: &PeerId) -> Option<usize> {
    s.providers.get(k).and_then(|l| l.iter().position(|x| &x.provider == p))
}

fn list_len(s: &MemoryStore, k: &Key) -> usize {
    s.providers.get(k).map_or(0, |l| l.len())
}

/// `provided` lists exactly the local node's current provider records: it has as
/// many elements as there are keys with a local record (the harness states reach
/// at most the two keys given), and contains each of those records.
fn provided_in_sync(s: &MemoryStore, keys: [&Key; 2], same: bool) -> bool {
    let mut ok = true;
    let mut n = 0;
    let mut i = 0;
    while i < 2 {
        if i == 0 || !same {
            let cur = s.providers.get(keys[i]).and_then(|l| l.iter().find(|x| x.provider == local()));
            if let Some(c) = cur {
                ok &= s.provided.contains(c);
                n += 1;
            }
        }
        i += 1;
    }
    ok && s.provided.len() == n
}

/// add_provider: per-key bound, in-place update, `provided` mirrors the local node's records
#[kani::proof]
#[kani::unwind(8)]
fn contract_add_provider() {
    let (mut s, k0) = any_provider_store();
    let same = kani::any();
    let k: u8 = if same { k0 } else { kani::any() };
    kani::assume(same || k != k0);
    let (kk0, kk) = (key(k0), key(k));
    let (pt, qt) = (any_peer_tag(), any_peer_tag());
    kani::assume(qt != pt);
    let (p, q) = (peer(pt), peer(qt));
    let tag: u8 = if kani::any() { 2 } else { 0 };
    let new_rec = prov(k, pt, tag);
    let maxp = s.config.max_providers_per_key;
    let keys0 = s.providers.len();
    let len0 = list_len(&s, &kk);
    let pos0 = listed(&s, &kk, &p);
    let q0 = listed(&s, &kk, &q);
    let other_len0 = list_len(&s, &kk0);
    kani::assume(len0 <= maxp); // well-formed state: the per-key bound holds
    kani::cover!(true);
    let r = s.add_provider(new_rec.clone());
    let len1 = list_len(&s, &kk);
    // each key lists at most max_providers_per_key providers
    assert!(len1 <= maxp);
    // another provider of the same key is untouched, another key's list too
    assert!(listed(&s, &kk, &q) == q0);
    if !same {
        assert!(list_len(&s, &kk0) == other_len0);
    }
    match pos0 {
        Some(i) => {
            // re-adding a provider updates it in place (same position, new record)
            assert!(r.is_ok());
            assert!(len1 == len0);
            assert!(listed(&s, &kk, &p) == Some(i));
            assert!(s.providers.get(&kk).unwrap()[i] == new_rec);
        }
        None => {
            if r.is_ok() && len0 < maxp {
                assert!(len1 == len0 + 1);
                assert!(listed(&s, &kk, &p) == Some(len0));
                assert!(s.providers.get(&kk).unwrap()[len0] == new_rec);
            } else {
                // refused (provided-keys limit) or list full: the provider is not listed
                assert!(len1 == len0);
                assert!(listed(&s, &kk, &p).is_none());
            }
            if r.is_err() {
                assert!(matches!(r, Err(Error::MaxProvidedKeys)));
                assert!(s.providers.len() == keys0);
            }
        }
    }
    // provided() lists exactly the local node's current provider records
    assert!(provided_in_sync(&s, [&kk0, &kk], same));
    std::mem::forget((s, kk0, kk, new_rec));
}

#[kani::proof]
#[kani::unwind(8)]
fn contract_remove_provider() {
    let (mut s, k0) = any_provider_store();
    let same = kani::any();
    let k: u8 = if same { k0 } else { kani::any() };
    kani::assume(same || k != k0);
    let (kk0, kk) = (key(k0), key(k));
    let (pt, qt) = (any_peer_tag(), any_peer_tag());
    kani::assume(qt != pt);
    let (p, q) = (peer(pt), peer(qt));
    let q0 = listed(&s, &kk0, &q).is_some();
    let p0 = listed(&s, &kk0, &p).is_some();
    let len0 = list_len(&s, &kk0);
    let was = same && p0;
    s.remove_provider(&kk, &p);
    // exactly that provider record leaves; every other one stays
    assert!(listed(&s, &kk, &p).is_none());
    assert!(listed(&s, &kk0, &q).is_some() == q0);
    assert!(list_len(&s, &kk0) == len0 - was as usize);
    if !same {
        assert!(listed(&s, &kk0, &p).is_some() == p0);
    }
    // empty lists are dropped
    assert!(s.providers.get(&kk0).map_or(true, |l| !l.is_empty()));
    // provided() still lists exactly the local node's current provider records
    assert!(provided_in_sync(&s, [&kk0, &kk], same));
    std::mem::forget((s, kk0, kk));
}

/// Vacuity canary: must FAIL.
#[kani::proof]
#[kani::unwind(8)]
fn canary_put_always_ok() {
    let mut s = any_record_store();
    let r = s.put(rec(kani::any(), 1, 1));
    assert!(r.is_ok());
    std::mem::forget(s);
}
