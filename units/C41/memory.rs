// C41 — kad MemoryStore (std HashMap/HashSet -> dependency shim).  One step of the
// REAL RecordStore methods, compared with the abstract model of the statement:
//   records  : finite map  Key -> Record          (bounded by max_records)
//   providers: finite map  Key -> list of ProviderRecord, one per provider
//              (each list bounded by max_providers_per_key)
//   provided : the set of exactly the local node's provider records
// The store is built as a struct literal (the constructor derives the local
// kbucket key through Sha256, which the store never reads: only `preimage()`).
//
// SYMBOLIC in every harness: all four limits of the configuration, every value byte,
// every expiry.  ENUMERATED (const generics, one harness per scenario): how many
// records / providers are stored, and WHICH stored entry the operation addresses
// (keys "a","b","c"; providers LOCAL, P1, P2, P3).  Reason, measured: `Key` is a
// `bytes::Bytes`, whose clone/drop go through a vtable FUNCTION POINTER; as soon as
// the addressed cell is symbolic the vtable value is an if-then-else, CBMC's
// function-pointer removal then explores every vtable implementation of the crate
// (promotable/shared/owned: allocation, atomics) under infeasible guards, and even
// the one-record put/get/remove harness ran out of 14 GB (450 s).  The store treats
// keys and peer ids as opaque values compared by `==`, so the scenarios are
// representative, but that symmetry argument is not machine-checked: `bounded`.

fn peer(d: u8) -> PeerId {
    PeerId::from_multihash(Multihash::<64>::wrap(0, &[d]).unwrap()).unwrap()
}

const LOCAL: u8 = 0xAA;

/// key number 1, 2, 3 = "a", "b", "c" (static storage: clone and drop are pointer copies)
fn skey(n: u8) -> Key {
    Key(bytes::Bytes::from_static(match n {
        1 => b"a",
        2 => b"b",
        _ => b"c",
    }))
}

fn rec<const VLEN: usize>(k: &Key, v: u8) -> Record {
    let value = match VLEN {
        0 => Vec::new(),
        1 => vec![v],
        _ => vec![v, v],
    };
    Record { key: k.clone(), value, publisher: None, expires: None }
}

fn any_expiry() -> Option<Instant> {
    if kani::any() {
        None
    } else {
        let s: u64 = kani::any();
        kani::assume(s <= 1 << 40);
        let zero: Instant = unsafe { std::mem::zeroed() };
        Some(zero + std::time::Duration::from_secs(s))
    }
}

/// (ProviderRecord's `==` looks at key and provider only: the expiry tells a refreshed
/// record from the one it replaces)
fn prov(k: &Key, p: u8, expires: Option<Instant>) -> ProviderRecord {
    ProviderRecord { key: k.clone(), provider: peer(p), expires, addresses: Vec::new() }
}

fn any_config() -> MemoryStoreConfig {
    let (a, b, c, d): (u8, u8, u8, u8) = (kani::any(), kani::any(), kani::any(), kani::any());
    kani::assume(a <= 3 && b <= 3 && c <= 3 && d <= 3);
    MemoryStoreConfig {
        max_records: a as usize,
        max_value_bytes: b as usize,
        max_providers_per_key: c as usize,
        max_provided_keys: d as usize,
    }
}

fn empty_store() -> MemoryStore {
    MemoryStore {
        local_key: crate::kbucket::verif::c41::key_with_bytes(peer(LOCAL), [0u8; 32]),
        config: any_config(),
        records: HashMap::default(),
        providers: HashMap::default(),
        provided: HashSet::default(),
    }
}

fn value_of(s: &MemoryStore, k: &Key) -> Option<(usize, u8)> {
    s.get(k).map(|r| (r.value.len(), if r.value.is_empty() { 0 } else { r.value[0] }))
}

/// N stored records under keys 1..=N with symbolic one-byte values
fn record_store<const N: u8>() -> MemoryStore {
    let mut s = empty_store();
    let mut i = 1;
    while i <= N {
        let k = skey(i);
        s.records.insert(k.clone(), rec::<1>(&k, kani::any()));
        i += 1;
    }
    s
}

/// put(key T) of a VLEN-byte value into a store holding keys 1..=N (T <= N: replaces; T > N: new key),
/// then get of every key.
fn put_get<const N: u8, const T: u8, const VLEN: usize>() {
    let mut s = record_store::<N>();
    let n0 = s.records.len();
    assert!(n0 == N as usize);
    let keys = [skey(1), skey(2), skey(3)];
    let before = [value_of(&s, &keys[0]), value_of(&s, &keys[1]), value_of(&s, &keys[2])];
    let v: u8 = kani::any();
    let max_records = s.config.max_records;
    let max_value_bytes = s.config.max_value_bytes;
    let t = T as usize - 1;
    assert!(before[t].is_some() == (T <= N));
    let r = s.put(rec::<VLEN>(&keys[t], v));
    // refused exactly when the value has max_value_bytes or more, or the key is new
    // and max_records are already stored
    let too_large = VLEN >= max_value_bytes;
    let full = before[t].is_none() && n0 >= max_records;
    assert!(r.is_ok() == !(too_large || full));
    if r.is_ok() {
        // get returns the latest put; the store grows by one only for a new key
        assert!(value_of(&s, &keys[t]) == Some((VLEN, if VLEN == 0 { 0 } else { v })));
        assert!(s.records.len() == n0 + before[t].is_none() as usize);
    } else {
        // a refused put changes nothing
        assert!(value_of(&s, &keys[t]) == before[t]);
        assert!(s.records.len() == n0);
    }
    // frame: every other key is untouched
    let mut j = 0;
    while j < 3 {
        if j != t {
            assert!(value_of(&s, &keys[j]) == before[j]);
        }
        j += 1;
    }
    kani::cover!(r.is_ok());
    std::mem::forget((s, r));
}

/// remove(key T) from a store holding keys 1..=N: exactly that key leaves
fn remove_get<const N: u8, const T: u8>() {
    let mut s = record_store::<N>();
    let keys = [skey(1), skey(2), skey(3)];
    let before = [value_of(&s, &keys[0]), value_of(&s, &keys[1]), value_of(&s, &keys[2])];
    let t = T as usize - 1;
    s.remove(&keys[t]);
    assert!(value_of(&s, &keys[t]).is_none());
    let mut j = 0;
    while j < 3 {
        if j != t {
            assert!(value_of(&s, &keys[j]) == before[j]);
        }
        j += 1;
    }
    assert!(s.records.len() == N as usize - (T <= N) as usize);
    std::mem::forget(s);
}

macro_rules! harness {
    ($name:ident, $body:expr) => {
        #[kani::proof]
        #[kani::unwind(6)]
        fn $name() {
            $body
        }
    };
}

harness!(contract_put_new_key_into_empty, put_get::<0, 1, 1>());
harness!(contract_put_replaces_only_record, put_get::<1, 1, 1>());
harness!(contract_put_new_key_beside_one, put_get::<1, 2, 1>());
harness!(contract_put_replaces_first_of_two, put_get::<2, 1, 1>());
harness!(contract_put_replaces_second_of_two, put_get::<2, 2, 2>());
harness!(contract_put_new_key_beside_two, put_get::<2, 3, 1>());
harness!(contract_put_empty_value, put_get::<1, 2, 0>());
harness!(contract_remove_absent_from_empty, remove_get::<0, 1>());
harness!(contract_remove_only_record, remove_get::<1, 1>());
harness!(contract_remove_absent_beside_one, remove_get::<1, 2>());
harness!(contract_remove_first_of_two, remove_get::<2, 1>());
harness!(contract_remove_second_of_two, remove_get::<2, 2>());

type ProvList = SmallVec<[ProviderRecord; K_VALUE.get()]>;

/// a provider list of `len` records whose unused inline cells hold concrete, well-formed
/// filler records (never read by the store: they lie beyond `len`)
fn list_of(a: ProviderRecord, b: ProviderRecord, len: usize) -> ProvList {
    let fk = Key(bytes::Bytes::new());
    macro_rules! f {
        () => {
            prov(&fk, 0x77, None)
        };
    }
    let buf: [ProviderRecord; 20] = [
        a, b, f!(), f!(), f!(), f!(), f!(), f!(), f!(), f!(), f!(), f!(), f!(), f!(), f!(), f!(), f!(), f!(), f!(), f!(),
    ];
    SmallVec::from_buf_and_len(buf, len)
}

const P: [u8; 4] = [LOCAL, 1, 2, 3];

/// A store whose key 1 lists L providers: P[A] first, P[B] second (indices into P; 0 is the
/// local node), symbolic expiries, `provided` in sync.
fn provider_store<const L: usize, const A: usize, const B: usize>() -> MemoryStore {
    let mut s = empty_store();
    let k = skey(1);
    if L >= 1 {
        let (ra, rb) = (prov(&k, P[A], any_expiry()), prov(&k, P[B], any_expiry()));
        if A == 0 {
            s.provided.insert(ra.clone());
        }
        if L >= 2 && B == 0 {
            s.provided.insert(rb.clone());
        }
        s.providers.insert(k.clone(), list_of(ra, rb, L));
    }
    s
}

/// position and expiry of provider P[x] in the list of key `k`
fn listed(s: &MemoryStore, k: &Key, x: usize) -> Option<(usize, Option<Instant>)> {
    let p = peer(P[x]);
    s.providers.get(k).and_then(|l| l.iter().position(|r| r.provider == p).map(|i| (i, l[i].expires)))
}

fn list_len(s: &MemoryStore, k: &Key) -> usize {
    s.providers.get(k).map_or(0, |l| l.len())
}

/// `provided` lists exactly the local node's current provider records (keys 1 and 2 are
/// the only ones the scenarios reach): one element per key with a local record, equal to
/// it including the expiry.
fn provided_in_sync(s: &MemoryStore) -> bool {
    let mut ok = true;
    let mut n = 0;
    let mut kn = 1;
    while kn <= 2 {
        let k = skey(kn);
        if let Some((_, e)) = listed(s, &k, 0) {
            let probe = prov(&k, LOCAL, None);
            ok &= s.provided.get(&probe).map_or(false, |x| x.expires == e);
            n += 1;
        }
        kn += 1;
    }
    ok && s.provided.len() == n
}

/// add_provider(key KN, provider P[X]) on provider_store<L, A, B>
fn add_provider_contract<const L: usize, const A: usize, const B: usize, const KN: u8, const X: usize>() {
    let mut s = provider_store::<L, A, B>();
    let (k1, kk) = (skey(1), skey(KN));
    let maxp = s.config.max_providers_per_key;
    kani::assume(L <= maxp); // well-formed state: the per-key bound holds
    assert!(provided_in_sync(&s)); // ... and `provided` mirrors the local records
    let keys0 = s.providers.len();
    let len0 = list_len(&s, &kk);
    let before = [listed(&s, &kk, 0), listed(&s, &kk, 1), listed(&s, &kk, 2), listed(&s, &kk, 3)];
    let other0 = [listed(&s, &k1, 0), listed(&s, &k1, 1), listed(&s, &k1, 2), listed(&s, &k1, 3)];
    let new_expiry = any_expiry();
    let r = s.add_provider(prov(&kk, P[X], new_expiry));
    let len1 = list_len(&s, &kk);
    // each key lists at most max_providers_per_key providers
    assert!(len1 <= maxp);
    // every other provider of that key is untouched (position and record)
    let mut j = 0;
    while j < 4 {
        if j != X {
            assert!(listed(&s, &kk, j) == before[j]);
        }
        if KN != 1 {
            assert!(listed(&s, &k1, j) == other0[j]); // and so is the other key's list
        }
        j += 1;
    }
    match before[X] {
        Some((i, _)) => {
            // re-adding a provider updates it in place: same position, the new record
            assert!(r.is_ok());
            assert!(len1 == len0);
            assert!(listed(&s, &kk, X) == Some((i, new_expiry)));
        }
        None => {
            if r.is_ok() && len0 < maxp {
                assert!(len1 == len0 + 1);
                assert!(listed(&s, &kk, X) == Some((len0, new_expiry)));
            } else {
                // refused, or the list is full: the provider is not listed
                assert!(len1 == len0);
                assert!(listed(&s, &kk, X).is_none());
            }
            if r.is_err() {
                assert!(matches!(r, Err(Error::MaxProvidedKeys)));
                assert!(s.providers.len() == keys0);
            }
        }
    }
    // provided() lists exactly the local node's current provider records
    assert!(provided_in_sync(&s));
    kani::cover!(r.is_ok() && len1 == len0 + 1);
    std::mem::forget((s, r));
}

// first provider of a new key: local / remote
harness!(contract_add_local_provider_first_key, add_provider_contract::<0, 1, 2, 1, 0>());
harness!(contract_add_remote_provider_first_key, add_provider_contract::<0, 1, 2, 1, 1>());
// key 1 lists one remote provider: re-add it, add the local node, add under a second key
harness!(contract_readd_only_remote_provider, add_provider_contract::<1, 1, 2, 1, 1>());
harness!(contract_add_local_beside_remote, add_provider_contract::<1, 1, 2, 1, 0>());
harness!(contract_add_local_under_second_key, add_provider_contract::<1, 0, 2, 2, 0>());
// key 1 lists the local node: refresh it
harness!(contract_readd_only_local_provider, add_provider_contract::<1, 0, 2, 1, 0>());
// key 1 lists two providers (remote, local): refresh either; (remote, remote): add a third
harness!(contract_readd_second_local_of_two, add_provider_contract::<2, 1, 0, 1, 0>());
harness!(contract_readd_first_remote_of_two, add_provider_contract::<2, 1, 0, 1, 1>());
harness!(contract_add_third_provider, add_provider_contract::<2, 1, 2, 1, 0>());

/// remove_provider(key KN, provider P[X]) on provider_store<L, A, B>
fn remove_provider_contract<const L: usize, const A: usize, const B: usize, const KN: u8, const X: usize>() {
    let mut s = provider_store::<L, A, B>();
    let (k1, kk) = (skey(1), skey(KN));
    assert!(provided_in_sync(&s));
    let len0 = list_len(&s, &k1);
    let before = [listed(&s, &k1, 0), listed(&s, &k1, 1), listed(&s, &k1, 2), listed(&s, &k1, 3)];
    let was = KN == 1 && before[X].is_some();
    s.remove_provider(&kk, &peer(P[X]));
    // exactly that provider record leaves; every other one stays, in order
    assert!(listed(&s, &kk, X).is_none());
    assert!(list_len(&s, &k1) == len0 - was as usize);
    let mut j = 0;
    while j < 4 {
        if !(was && j == X) {
            match (before[j], listed(&s, &k1, j)) {
                (None, None) => {}
                (Some((i0, e0)), Some((i1, e1))) => {
                    assert!(e0 == e1);
                    let shift = was && before[X].map_or(false, |(ix, _)| ix < i0);
                    assert!(i1 == i0 - shift as usize);
                }
                _ => assert!(false),
            }
        }
        j += 1;
    }
    // empty lists are dropped
    assert!(s.providers.get(&k1).map_or(true, |l| !l.is_empty()));
    // provided() still lists exactly the local node's current provider records
    assert!(provided_in_sync(&s));
    std::mem::forget(s);
}

harness!(contract_remove_only_local_provider, remove_provider_contract::<1, 0, 2, 1, 0>());
harness!(contract_remove_unlisted_provider, remove_provider_contract::<1, 1, 2, 1, 0>());
harness!(contract_remove_first_local_of_two, remove_provider_contract::<2, 0, 1, 1, 0>());
harness!(contract_remove_second_remote_of_two, remove_provider_contract::<2, 0, 1, 1, 1>());
harness!(contract_remove_under_other_key, remove_provider_contract::<2, 0, 1, 2, 0>());

/// Vacuity canary: must FAIL (a put at the record limit is refused).
#[kani::proof]
#[kani::unwind(6)]
fn canary_put_always_ok() {
    let mut s = record_store::<1>();
    let k = skey(2);
    let r = s.put(rec::<1>(&k, 1));
    assert!(r.is_ok());
    std::mem::forget(s);
}
