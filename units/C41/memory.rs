// C41 — kad MemoryStore (std HashMap/HashSet -> dependency shim).  One step from
// ANY small store state under ANY small configuration.

fn local() -> PeerId {
    PeerId::from_multihash(Multihash::<64>::wrap(0, &[0xAA]).unwrap()).unwrap()
}

fn any_peer() -> PeerId {
    // either the local peer or one of 255 others
    let d: u8 = kani::any();
    PeerId::from_multihash(Multihash::<64>::wrap(0, &[d]).unwrap()).unwrap()
}

fn key(b: u8) -> Key {
    Key::from(vec![b])
}

fn rec(k: u8, v: u8, vlen: usize) -> Record {
    let mut value = Vec::with_capacity(4);
    let mut i = 0;
    while i < vlen {
        value.push(v);
        i += 1;
    }
    Record { key: key(k), value, publisher: None, expires: None }
}

fn prov(k: u8, p: PeerId, tag: u8) -> ProviderRecord {
    // `tag` distinguishes two records of the same (key, provider): a refreshed record
    ProviderRecord { key: key(k), provider: p, expires: None, addresses: if tag == 0 { Vec::new() } else { vec![Multiaddr::empty()] } }
}

fn any_config() -> MemoryStoreConfig {
    let c = MemoryStoreConfig {
        max_records: kani::any::<u8>() as usize % 4,
        max_value_bytes: kani::any::<u8>() as usize % 4,
        max_providers_per_key: kani::any::<u8>() as usize % 3,
        max_provided_keys: kani::any::<u8>() as usize % 3,
    };
    c
}

fn any_store() -> MemoryStore {
    let mut s = MemoryStore::with_config(local(), any_config());
    // up to two stored records with symbolic keys / values
    if kani::any() {
        let k: u8 = kani::any();
        s.records.insert(key(k), rec(k, kani::any(), 1));
    }
    if kani::any() {
        let k: u8 = kani::any();
        s.records.insert(key(k), rec(k, kani::any(), 1));
    }
    s
}

/// put / get / remove behave like a bounded map
#[kani::proof]
#[kani::unwind(8)]
fn contract_put_get_remove() {
    let mut s = any_store();
    let n0 = s.records.len();
    let k: u8 = kani::any();
    let other: u8 = kani::any();
    kani::assume(other != k);
    let vlen: usize = kani::any();
    kani::assume(vlen <= 3);
    let v: u8 = kani::any();
    let had = s.records.contains_key(&key(k));
    let other_before = s.get(&key(other)).map(|r| r.value.clone());
    let r = s.put(rec(k, v, vlen));
    let too_large = vlen >= s.config.max_value_bytes;
    let full = !had && n0 >= s.config.max_records;
    match &r {
        Err(Error::ValueTooLarge) => assert!(too_large),
        Err(Error::MaxRecords) => assert!(!too_large && full),
        Err(_) => assert!(false),
        Ok(()) => assert!(!too_large && !full),
    }
    if r.is_ok() {
        // get returns the latest put; the store grew by one only for a new key
        let got = s.get(&key(k));
        assert!(got.is_some());
        let got = got.unwrap();
        assert!(got.value.len() == vlen && (vlen == 0 || got.value[0] == v));
        assert!(s.records.len() == n0 + (!had) as usize);
    } else {
        assert!(s.records.len() == n0);
        assert!(s.records.contains_key(&key(k)) == had);
    }
    // frame: any other key is untouched
    assert!(s.get(&key(other)).map(|r| r.value.clone()) == other_before);
    // remove deletes exactly that key
    s.remove(&key(k));
    assert!(s.get(&key(k)).is_none());
    assert!(s.get(&key(other)).map(|r| r.value.clone()) == other_before);
}

fn any_provider_store() -> (MemoryStore, u8) {
    let mut s = MemoryStore::with_config(local(), any_config());
    let k: u8 = kani::any();
    if kani::any() {
        let mut list: SmallVec<[ProviderRecord; K_VALUE.get()]> = SmallVec::new();
        let p1 = any_peer();
        list.push(prov(k, p1, 0));
        if p1 == local() {
            s.provided.insert(prov(k, p1, 0));
        }
        if kani::any() {
            let p2 = any_peer();
            kani::assume(p2 != p1);
            list.push(prov(k, p2, 0));
            if p2 == local() {
                s.provided.insert(prov(k, p2, 0));
            }
        }
        s.providers.insert(key(k), list);
    }
    (s, k)
}

fn listed(s: &MemoryStore, k: u8, p: &PeerId) -> Option<usize> {
    s.providers.get(&key(k)).and_then(|l| l.iter().position(|x| &x.provider == p))
}

/// add_provider: per-key bound, in-place update, `provided` mirrors the local node's records
#[kani::proof]
#[kani::unwind(8)]
fn contract_add_provider() {
    let (mut s, k0) = any_provider_store();
    let k: u8 = if kani::any() { k0 } else { kani::any() };
    let p = any_peer();
    let tag: u8 = if kani::any() { 1 } else { 0 };
    let new_rec = prov(k, p, tag);
    let keys0 = s.providers.len();
    let len0 = s.providers.get(&key(k)).map_or(0, |l| l.len());
    let pos0 = listed(&s, k, &p);
    let key_known = s.providers.contains_key(&key(k));
    let r = s.add_provider(new_rec.clone());
    let len1 = s.providers.get(&key(k)).map_or(0, |l| l.len());
    if !key_known && s.config.max_provided_keys == keys0 {
        assert!(matches!(r, Err(Error::MaxProvidedKeys)));
        assert!(s.providers.len() == keys0 && len1 == 0);
    } else {
        assert!(r.is_ok());
        match pos0 {
            Some(i) => {
                // re-adding a provider updates it in place
                assert!(len1 == len0);
                assert!(s.providers.get(&key(k)).unwrap()[i] == new_rec);
            }
            None => {
                if len0 == s.config.max_providers_per_key {
                    assert!(len1 == len0); // list full: silently not added
                    assert!(listed(&s, k, &p).is_none());
                } else {
                    assert!(len1 == len0 + 1);
                    assert!(listed(&s, k, &p) == Some(len0));
                }
            }
        }
        // never more than max_providers_per_key (unless the state already exceeded it)
        assert!(len1 <= s.config.max_providers_per_key || len1 <= len0);
        // provided() lists exactly the local node's current record for this key
        if p == local() {
            let now_listed = listed(&s, k, &p).is_some();
            assert!(s.provided.contains(&new_rec) == now_listed);
            if tag == 1 {
                // the superseded record is gone
                assert!(!s.provided.contains(&prov(k, p, 0)));
            }
        }
    }
}

#[kani::proof]
#[kani::unwind(8)]
fn contract_remove_provider() {
    let (mut s, k) = any_provider_store();
    let p = any_peer();
    let q = any_peer();
    kani::assume(q != p);
    let q0 = listed(&s, k, &q).is_some();
    let len0 = s.providers.get(&key(k)).map_or(0, |l| l.len());
    let was = listed(&s, k, &p).is_some();
    s.remove_provider(&key(k), &p);
    assert!(listed(&s, k, &p).is_none());
    assert!(listed(&s, k, &q).is_some() == q0);
    let len1 = s.providers.get(&key(k)).map_or(0, |l| l.len());
    assert!(len1 == len0 - was as usize);
    // empty lists are dropped
    assert!(s.providers.get(&key(k)).map_or(true, |l| !l.is_empty()));
    if p == local() {
        assert!(!s.provided.contains(&prov(k, p, 0)));
    }
    if q == local() {
        assert!(s.provided.contains(&prov(k, q, 0)) == q0);
    }
}

/// Vacuity canary: must FAIL.
#[kani::proof]
#[kani::unwind(8)]
fn canary_put_always_ok() {
    let mut s = any_store();
    let r = s.put(rec(kani::any(), 1, 1));
    assert!(r.is_ok());
}
