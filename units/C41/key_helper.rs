// C41/C43 helper (mounted in kbucket/key.rs): build a `Key<T>` from a preimage and
// raw key bytes WITHOUT running Sha256 (the store only ever reads `preimage()`).
#[allow(dead_code)]
pub(crate) fn key_with_bytes<T>(preimage: T, b: [u8; 32]) -> Key<T> {
    Key { preimage, bytes: KeyBytes(Array::from(b)) }
}
