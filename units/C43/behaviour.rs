// C43 — provider records are only accepted from the provider itself; a PUT_VALUE
// whose publisher is the local node never changes the local record.
//
// K-fragments (DESIGN §2.2): the three pieces of protocols/kad/src/behaviour.rs the
// statement is about are extracted verbatim on every run (unit.json `fragments`)
// and become methods of the environment struct below, which has exactly the
// fields the fragments read, with recording stand-ins for the store and the
// event queue:
//   on_add_provider   = the `HandlerEvent::AddProvider { key, provider }` arm of
//                       on_connection_handler_event (source check)
//   provider_received = the whole body of Behaviour::provider_received
//   record_received_guard = the local-publisher guard at the head of
//                       Behaviour::record_received (up to `let now = Instant::now();`);
//                       falling through it sets `reached_store_path` (every
//                       `store.put` of record_received lies after that point).
// `Instant::now` is stubbed by a clock WITHOUT state: every call returns an arbitrary
// valid Instant (the fragments only add the ttl to it; no assertion below reads an
// expiry).  shims/clock.rs is deliberately not used here: its `static mut NOW_SECS:
// u64 = 0` is content-identical to the 8-byte zero constant `RawVecInner::ZERO_CAP`,
// and Kani 0.68 codegens that constant as a read of the static (seen in the goto
// program of `RawVecInner::new_in`), so after `clock::set(s, _)` every `Vec::new()`
// had capacity `s` and dropping the empty `Vec<Multiaddr>` of an unmoved KadPeer
// "deallocated" a dangling pointer (kani_lib.c:85) - a tool artefact, not a defect.
pub(crate) mod clock {
    use std::time::{Duration, Instant};
    pub(crate) fn now() -> Instant {
        let s: u64 = kani::any();
        let n: u32 = kani::any();
        kani::assume(s <= 1 << 40);
        kani::assume(n < 1_000_000_000);
        let zero: Instant = unsafe { std::mem::zeroed() };
        zero + Duration::new(s, n)
    }
}

pub(crate) struct LocalKey(PeerId);
impl LocalKey {
    fn preimage(&self) -> &PeerId {
        &self.0
    }
}
pub(crate) struct Buckets {
    local: LocalKey,
}
impl Buckets {
    fn local_key(&self) -> &LocalKey {
        &self.local
    }
}

/// recording stand-in for the RecordStore: counts add_provider calls, remembers the provider
pub(crate) struct RecStore {
    add_calls: u8,
    last_provider: Option<PeerId>,
    refuse: bool,
}
impl RecStore {
    fn add_provider(&mut self, r: ProviderRecord) -> record::store::Result<()> {
        self.add_calls += 1;
        self.last_provider = Some(r.provider);
        std::mem::forget(r);
        if self.refuse { Err(record::store::Error::MaxProvidedKeys) } else { Ok(()) }
    }
}

/// Stand-ins for the two large event enums (`libp2p_swarm::ToSwarm`, `kad::Event`),
/// with exactly the variants the three fragments construct, same names and field
/// names (they shadow the glob-imported real types inside this module only).  The
/// real enums made every harness spend 150-300 s in symbolic execution on moving
/// one event value; the payload types (`InboundRequest`, `ProviderRecord`, `HandlerIn`,
/// `NotifyHandler`) are the real ones.
pub(crate) enum ToSwarm<A, B> {
    GenerateEvent(A),
    NotifyHandler { peer_id: PeerId, handler: NotifyHandler, event: B },
}
pub(crate) enum Event {
    InboundRequest { request: InboundRequest },
}

/// recording stand-in for `queued_events`
pub(crate) struct EvQ {
    pushed: u8,
    /// an Event::InboundRequest { AddProvider { record: Some(_) } } was emitted for this provider
    offered_provider: Option<PeerId>,
}
impl EvQ {
    fn push_back(&mut self, e: ToSwarm<Event, HandlerIn>) {
        self.pushed += 1;
        if let ToSwarm::GenerateEvent(Event::InboundRequest {
            request: InboundRequest::AddProvider { record: Some(r) },
        }) = &e
        {
            self.offered_provider = Some(r.provider);
        }
        std::mem::forget(e);
    }
}

pub(crate) struct Env {
    kbuckets: Buckets,
    provider_record_ttl: Option<Duration>,
    record_filtering: StoreInserts,
    store: RecStore,
    queued_events: EvQ,
    reached_store_path: bool,
}

include!(concat!(env!("LIBP2P_VERIF_GEN"), "/C43/provider_fragments.rs"));

fn peer(d: u8) -> PeerId {
    PeerId::from_multihash(libp2p_core::multihash::Multihash::<64>::wrap(0, &[d]).unwrap()).unwrap()
}

/// three symbolic peers drawn from a 256-element domain (so any two may coincide)
fn any_env(local: PeerId) -> Env {
    let ttl: u64 = kani::any();
    kani::assume(ttl <= 1 << 40);
    Env {
        kbuckets: Buckets { local: LocalKey(local) },
        provider_record_ttl: if kani::any() { Some(Duration::from_secs(ttl)) } else { None },
        record_filtering: if kani::any() { StoreInserts::Unfiltered } else { StoreInserts::FilterBoth },
        store: RecStore { add_calls: 0, last_provider: None, refuse: kani::any() },
        queued_events: EvQ { pushed: 0, offered_provider: None },
        reached_store_path: false,
    }
}

fn kad_peer(node_id: PeerId) -> KadPeer {
    KadPeer { node_id, multiaddrs: Vec::new(), connection_ty: ConnectionType::Connected }
}

/// ADD_PROVIDER from `source` announcing `announced`: the store is touched (and, in
/// filtering mode, the record offered to the application) ONLY IF announced ==
/// source and announced != local; then with exactly that provider, once.
#[kani::proof]
#[kani::unwind(8)]
#[kani::stub(std::time::Instant::now, clock::now)]
fn contract_add_provider_only_from_provider() {
    let (l, s, a): (u8, u8, u8) = (kani::any(), kani::any(), kani::any());
    let (local, source, announced) = (peer(l), peer(s), peer(a));
    let mut env = any_env(local);
    let unfiltered = matches!(env.record_filtering, StoreInserts::Unfiltered);
    env.on_add_provider(source, record::Key::from(Vec::new()), kad_peer(announced));
    let legit = a == s && a != l;
    if !legit {
        assert!(env.store.add_calls == 0);
        assert!(env.queued_events.offered_provider.is_none());
        assert!(env.queued_events.pushed == 0);
    } else {
        // accepted: stored (or offered) once, with the sender as provider
        assert!(env.store.add_calls == unfiltered as u8);
        if unfiltered {
            assert!(env.store.last_provider == Some(source));
        } else {
            assert!(env.queued_events.offered_provider == Some(source));
        }
    }
    kani::cover!(env.store.add_calls == 1);
}

/// provider_received on its own (it is also reached from other call sites): never
/// stores a provider record naming the local node.
#[kani::proof]
#[kani::unwind(8)]
#[kani::stub(std::time::Instant::now, clock::now)]
fn contract_provider_received_never_local() {
    let (l, a): (u8, u8) = (kani::any(), kani::any());
    let mut env = any_env(peer(l));
    env.provider_received(record::Key::from(Vec::new()), kad_peer(peer(a)));
    if a == l {
        assert!(env.store.add_calls == 0 && env.queued_events.pushed == 0);
    } else {
        assert!(env.store.add_calls <= 1);
        assert!(env.store.last_provider.map_or(true, |p| p == peer(a)));
    }
    kani::cover!(env.store.add_calls == 1);
}

/// PUT_VALUE whose publisher is the local node: record_received answers the sender
/// and returns before the part that touches the store.
#[kani::proof]
#[kani::unwind(8)]
fn contract_put_value_local_publisher_guard() {
    let (l, s): (u8, u8) = (kani::any(), kani::any());
    let publisher: Option<u8> = if kani::any() { Some(kani::any()) } else { None };
    let mut env = any_env(peer(l));
    let record = Record {
        key: record::Key::from(Vec::new()),
        value: Vec::new(),
        publisher: publisher.map(peer),
        expires: None,
    };
    let request_id: RequestId = unsafe { std::mem::zeroed() };
    env.record_received_guard(peer(s), ConnectionId::new_unchecked(0), request_id, record);
    if publisher == Some(l) {
        assert!(!env.reached_store_path);
        assert!(env.store.add_calls == 0);
    } else {
        assert!(env.reached_store_path);
    }
    kani::cover!(env.reached_store_path);
    kani::cover!(!env.reached_store_path);
}

/// Vacuity canary: must FAIL (a legitimate announcement IS stored).
#[kani::proof]
#[kani::unwind(8)]
#[kani::stub(std::time::Instant::now, clock::now)]
fn canary_add_provider_never_stored() {
    let (l, s, a): (u8, u8, u8) = (kani::any(), kani::any(), kani::any());
    let mut env = any_env(peer(l));
    env.on_add_provider(peer(s), record::Key::from(Vec::new()), kad_peer(peer(a)));
    assert!(env.store.add_calls == 0);
}
