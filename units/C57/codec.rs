// C57 — length-prefixed protobuf codec (misc/prost-codec).  Contract from the statement:
//  (1) decodes, under ANY split of the byte stream, exactly the messages that were encoded;
//  (2) rejects a declared length above its limit BEFORE buffering the payload
//      (Err from the prefix alone, nothing consumed or split off);
//  (3) never panics on arbitrary input.
// Framing harnesses use `Opaque`, a message type whose decoder swallows the body
// (prost's body decoding is assumed there); the round-trip harnesses run prost's real
// derive code on the crate's own test message.

/// a read buffer holding `bytes` with spare capacity (unique / KIND_VEC representation):
/// used where every length is concrete (round trip, encode)
fn buf_from(bytes: &[u8]) -> BytesMut {
    let mut b = BytesMut::with_capacity(32);
    b.extend_from_slice(bytes);
    b
}

/// the same in BytesMut's SHARED representation (what a buffer is after its first
/// split_to anyway): used where `advance(n)`/`split_to(n)` see a SYMBOLIC n.  Measured
/// reason: in the unique representation BytesMut keeps an integer offset inside a tagged
/// pointer and a symbolic `advance` sends CBMC into both representations at every later
/// operation; conversely a shared buffer that has to GROW reallocates through the
/// shared path (366 s), so the concrete harnesses use buf_from.
fn buf_shared(bytes: &[u8]) -> BytesMut {
    let mut b = BytesMut::with_capacity(32);
    b.extend_from_slice(bytes);
    let t = b.split_off(b.len());
    std::mem::forget(t);
    b
}

fn no_format(_args: std::fmt::Arguments<'_>) -> String {
    String::new()
}

/// message type with an opaque body: `decode` accepts and swallows any body.
/// Measured reason: prost's generic `Message::decode` driver (decode_key on SYMBOLIC key
/// bytes) does not terminate under CBMC even for a 1-byte body (150 s probe), so the framing
/// contract treats body decoding as assumed; the round-trip harnesses below run prost's
/// real code on bodies whose key/length bytes are concrete.
#[derive(Debug, Default)]
struct Opaque;

impl Message for Opaque {
    fn decode(mut buf: impl Buf) -> Result<Self, prost::DecodeError> {
        let n = buf.remaining();
        buf.advance(n);
        Ok(Opaque)
    }
    fn encode_raw(&self, _buf: &mut impl bytes::BufMut) {}
    fn merge_field(
        &mut self,
        _tag: u32,
        _wire_type: WireType,
        buf: &mut impl Buf,
        _ctx: DecodeContext,
    ) -> Result<(), prost::DecodeError> {
        let n = buf.remaining();
        buf.advance(n);
        Ok(())
    }
    fn encoded_len(&self) -> usize {
        0
    }
    fn clear(&mut self) {}
}

/// spec of the unsigned LEB128 prefix over the full usize range (<= 10 bytes):
/// Some((value, prefix length)) for a minimal, non-overflowing prefix inside `raw[..have]`
fn spec_varint(raw: &[u8; 10], have: usize) -> Option<(usize, usize)> {
    let mut v: u64 = 0;
    let mut i = 0;
    while i < 10 && i < have {
        let b = raw[i];
        if i == 9 && b > 1 {
            return None; // does not fit 64 bits
        }
        v |= ((b & 0x7f) as u64) << (7 * i);
        if b < 0x80 {
            if b == 0 && i > 0 {
                return None; // non-minimal encoding
            }
            return Some((v as usize, i + 1));
        }
        i += 1;
    }
    None
}

/// (2)+(3) decode() on every 10-byte read buffer: prefix of any width and value, followed by
/// whatever part of the payload has arrived; every max_message_len.
#[kani::proof]
#[kani::unwind(12)]
#[kani::stub(alloc::fmt::format, no_format)]
fn contract_decode_prefix_full_width() {
    let raw: [u8; 10] = kani::any();
    let max: usize = kani::any();
    let mut codec = Codec::<Opaque, Opaque>::new(max);
    let mut src = buf_shared(&raw);
    let r = Decoder::decode(&mut codec, &mut src);
    if let Some((len, vl)) = spec_varint(&raw, 10) {
        kani::cover!(len > max && vl == 10);
        kani::cover!(len <= max && vl == 1 && len == 9); // complete frame filling the buffer
        kani::cover!(len <= max && vl == 3); // in-limit frame, payload incomplete
        if len > max {
            // oversized claim: refused from the prefix alone, nothing consumed / split off
            assert!(r.is_err());
            assert!(src.len() == 10);
        } else if len > 10 - vl {
            // payload not complete: wait, buffer untouched
            assert!(matches!(r, Ok(None)));
            assert!(src.len() == 10);
            let mut j = 0;
            while j < 10 {
                assert!(src[j] == raw[j]);
                j += 1;
            }
        } else {
            // complete frame: delivered; exactly prefix + payload consumed; the next
            // frame's bytes are intact
            assert!(matches!(r, Ok(Some(_))));
            assert!(src.len() == 10 - vl - len);
            let mut j = 0;
            while j < 10 {
                if j < src.len() {
                    assert!(src[j] == raw[vl + len + j]);
                }
                j += 1;
            }
        }
    }
    std::mem::forget(r);
    std::mem::forget(src);
}

/// (2) the prefix ALONE is buffered (no payload byte yet): an oversized claim is already an error
#[kani::proof]
#[kani::unwind(12)]
#[kani::stub(alloc::fmt::format, no_format)]
fn oversized_claim_rejected_from_prefix_alone() {
    let raw: [u8; 3] = kani::any();
    kani::assume(raw[0] >= 0x80 && raw[1] >= 0x80 && raw[2] < 0x80 && raw[2] != 0);
    let len = (raw[0] & 0x7f) as usize | ((raw[1] & 0x7f) as usize) << 7 | (raw[2] as usize) << 14;
    let max: usize = kani::any();
    kani::assume(max < len);
    let mut codec = Codec::<Opaque, Opaque>::new(max);
    let mut src = buf_shared(&raw);
    let r = Decoder::decode(&mut codec, &mut src);
    assert!(r.is_err());
    assert!(src.len() == 3);
    std::mem::forget(r);
    std::mem::forget(src);
}

fn msg(n: usize) -> proto::Message {
    let mut data = Vec::with_capacity(4);
    let mut i = 0;
    while i < n {
        data.push(kani::any());
        i += 1;
    }
    proto::Message { data }
}

/// feed `src` to the decoder until it asks for more bytes; any error is a contract violation
fn drain(codec: &mut Codec<proto::Message>, src: &mut BytesMut, out: &mut [Option<proto::Message>; 2], cnt: &mut usize) {
    let mut guard = 0;
    while guard < 3 {
        match Decoder::decode(codec, src) {
            Ok(Some(m)) => {
                assert!(*cnt < 2);
                out[*cnt] = Some(m);
                *cnt += 1;
            }
            Ok(None) => return,
            Err(e) => {
                std::mem::forget(e);
                assert!(false);
            }
        }
        guard += 1;
    }
}

/// (1) two encoded messages delivered as `wire[..k]` then `wire[k..]` decode to exactly those messages
fn roundtrip_split(k: usize, wire: &[u8; 6], m1: &proto::Message, m2: &proto::Message) {
    let mut codec = Codec::<proto::Message>::new(16);
    let mut out: [Option<proto::Message>; 2] = [None, None];
    let mut cnt = 0;
    let mut src = buf_from(&wire[..k]);
    drain(&mut codec, &mut src, &mut out, &mut cnt);
    src.extend_from_slice(&wire[k..]);
    drain(&mut codec, &mut src, &mut out, &mut cnt);
    assert!(cnt == 2);
    assert!(out[0].as_ref() == Some(m1));
    assert!(out[1].as_ref() == Some(m2));
    assert!(src.is_empty());
    std::mem::forget(out);
    std::mem::forget(src);
}

fn encode_two() -> ([u8; 6], proto::Message, proto::Message) {
    let m1 = msg(2); // frame: 04 0a 02 d0 d1
    let m2 = msg(0); // frame: 00
    let mut codec = Codec::<proto::Message>::new(16);
    let mut dst = BytesMut::with_capacity(32);
    let r1 = Encoder::encode(&mut codec, m1.clone(), &mut dst);
    let r2 = Encoder::encode(&mut codec, m2.clone(), &mut dst);
    assert!(r1.is_ok() && r2.is_ok());
    assert!(dst.len() == 6);
    let mut wire = [0u8; 6];
    let mut i = 0;
    while i < 6 {
        wire[i] = dst[i];
        i += 1;
    }
    std::mem::forget(dst);
    (wire, m1, m2)
}

/// (1) every buffer content that stops short of the first frame's end: wait, untouched
#[kani::proof]
#[kani::unwind(12)]
#[kani::stub(alloc::fmt::format, no_format)]
fn roundtrip_incomplete_prefixes_wait() {
    let (wire, m1, m2) = encode_two();
    let mut codec = Codec::<proto::Message>::new(16);
    let mut k = 0;
    while k < 5 {
        let mut src = buf_from(&wire[..k]);
        let r = Decoder::decode(&mut codec, &mut src);
        assert!(matches!(r, Ok(None)));
        assert!(src.len() == k);
        std::mem::forget(r);
        std::mem::forget(src);
        k += 1;
    }
    std::mem::forget((m1, m2));
}

/// (1) split in the middle of the first frame
#[kani::proof]
#[kani::unwind(12)]
#[kani::stub(alloc::fmt::format, no_format)]
fn roundtrip_split_mid_frame() {
    let (wire, m1, m2) = encode_two();
    roundtrip_split(3, &wire, &m1, &m2);
    std::mem::forget((m1, m2));
}

/// (1) split exactly at the frame boundary
#[kani::proof]
#[kani::unwind(12)]
#[kani::stub(alloc::fmt::format, no_format)]
fn roundtrip_split_at_frame_boundary() {
    let (wire, m1, m2) = encode_two();
    roundtrip_split(5, &wire, &m1, &m2);
    std::mem::forget((m1, m2));
}

/// (1) everything coalesced into one chunk (k = 6: the second chunk is empty)
#[kani::proof]
#[kani::unwind(12)]
#[kani::stub(alloc::fmt::format, no_format)]
fn roundtrip_coalesced() {
    let (wire, m1, m2) = encode_two();
    roundtrip_split(6, &wire, &m1, &m2);
    std::mem::forget((m1, m2));
}

/// encode appends varint(len) ++ body to what is already in the buffer
#[kani::proof]
#[kani::unwind(12)]
fn encode_appends_prefix_and_body() {
    let pre: u8 = kani::any();
    let mut dst = buf_from(&[pre]);
    let m = msg(2);
    let body = m.encode_to_vec();
    let mut codec = Codec::<proto::Message>::new(kani::any());
    let r = Encoder::encode(&mut codec, m, &mut dst);
    assert!(r.is_ok());
    assert!(body.len() == 4 && dst.len() == 1 + 1 + 4);
    assert!(dst[0] == pre && dst[1] == 4);
    let mut i = 0;
    while i < 4 {
        assert!(dst[2 + i] == body[i]);
        i += 1;
    }
    std::mem::forget((r, body, dst));
}

/// consume_message_prefix on every slice of <= 4 bytes (1- or 2-byte prefix).
#[kani::proof]
#[kani::unwind(12)]
fn contract_consume_message_prefix() {
    let raw4: [u8; 4] = kani::any();
    let have: usize = kani::any();
    kani::assume(have <= 4);
    kani::assume(raw4[1] < 0x80);
    let mut raw = [0u8; 10];
    raw[0] = raw4[0];
    raw[1] = raw4[1];
    raw[2] = raw4[2];
    raw[3] = raw4[3];
    let mut s: &[u8] = &raw[..have];
    let r = consume_message_prefix(&mut s);
    if have >= 2 && raw[0] >= 0x80 && raw[1] == 0 {
        // non-minimal prefix: refused
        assert!(r.is_err());
        assert!(s.len() == have);
        std::mem::forget(r);
        return;
    }
    match spec_varint(&raw, have) {
        None => {
            assert!(matches!(r, Ok(false)));
            assert!(s.len() == have);
        }
        Some((len, vl)) => {
            if have < vl + len {
                assert!(matches!(r, Ok(false)));
                assert!(s.len() == have);
            } else {
                assert!(matches!(r, Ok(true)));
                assert!(s.len() == len);
                assert!(s.as_ptr() == raw[vl..].as_ptr());
            }
        }
    }
    std::mem::forget(r);
}

/// Vacuity canary: must FAIL.
#[kani::proof]
#[kani::unwind(12)]
#[kani::stub(alloc::fmt::format, no_format)]
fn canary_decode_never_errs() {
    let raw: [u8; 2] = kani::any();
    kani::assume(raw[0] < 0x80);
    let mut codec = Codec::<Opaque, Opaque>::new(kani::any());
    let mut src = buf_shared(&raw);
    let r = Decoder::decode(&mut codec, &mut src);
    assert!(r.is_ok());
    std::mem::forget(r);
}
