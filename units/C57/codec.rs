// C57 — length-prefixed protobuf codec (misc/prost-codec).
//   decode: claimed length > max  => Err, and nothing is split off / allocated for it;
//           frame incomplete      => Ok(None), buffer untouched;
//           frame complete        => consumes exactly varint + len bytes.
//   consume_message_prefix: same framing rule on a slice.
// The message type is `()` (prost's empty message: unknown fields are skipped), so
// prost's field decoder runs on the 0..2 body bytes; prost itself is assumed.

fn buf_from(bytes: &[u8]) -> BytesMut {
    let mut b = BytesMut::with_capacity(16);
    b.extend_from_slice(bytes);
    b
}

fn no_format(_args: std::fmt::Arguments<'_>) -> String {
    String::new()
}

/// spec of the unsigned-varint prefix for values < 2^14 (1 or 2 bytes):
/// returns (value, prefix length) or None when more bytes are needed
fn spec_varint2(raw: &[u8], have: usize) -> Option<(usize, usize)> {
    if have == 0 {
        return None;
    }
    if raw[0] < 0x80 {
        return Some((raw[0] as usize, 1));
    }
    if have < 2 {
        return None;
    }
    Some((((raw[0] & 0x7f) as usize) | ((raw[1] as usize) << 7), 2))
}

/// unsigned-varint rejects non-minimal encodings (a 2-byte prefix whose last byte is 0)
fn overlong(raw: &[u8], have: usize) -> bool {
    have >= 2 && raw[0] >= 0x80 && raw[1] == 0
}

/// decode() on every buffer of <= 4 bytes whose varint prefix is 1 or 2 bytes.
#[kani::proof]
#[kani::unwind(12)]
#[kani::stub(alloc::fmt::format, no_format)]
fn contract_decode_framing() {
    let raw: [u8; 4] = kani::any();
    let have: usize = kani::any();
    kani::assume(have <= 4);
    kani::assume(raw[1] < 0x80); // prefix is at most 2 bytes long
    let max: usize = kani::any();
    let mut codec = Codec::<(), ()>::new(max);
    let mut src = buf_from(&raw[..have]);
    let r = Decoder::decode(&mut codec, &mut src);
    if overlong(&raw, have) {
        assert!(r.is_err());
        assert!(src.len() == have);
        std::mem::forget(r);
        return;
    }
    match spec_varint2(&raw, have) {
        None => {
            assert!(matches!(r, Ok(None)));
            assert!(src.len() == have);
        }
        Some((len, vl)) => {
            if len > max {
                // oversized claim: refused before anything is consumed or split off
                assert!(r.is_err());
                assert!(src.len() == have);
            } else if have < vl + len {
                assert!(matches!(r, Ok(None)));
                assert!(src.len() == have);
            } else {
                // complete frame: exactly varint + len consumed, whatever the body decodes to
                assert!(src.len() == have - vl - len);
                let mut j = 0;
                while j < src.len() {
                    assert!(src[j] == raw[vl + len + j]);
                    j += 1;
                }
            }
        }
    }
    std::mem::forget(r);
}

/// consume_message_prefix on every slice of <= 4 bytes.
#[kani::proof]
#[kani::unwind(12)]
fn contract_consume_message_prefix() {
    let raw: [u8; 4] = kani::any();
    let have: usize = kani::any();
    kani::assume(have <= 4);
    kani::assume(raw[1] < 0x80);
    let mut s: &[u8] = &raw[..have];
    let r = consume_message_prefix(&mut s);
    if overlong(&raw, have) {
        assert!(r.is_err());
        assert!(s.len() == have);
        std::mem::forget(r);
        return;
    }
    match spec_varint2(&raw, have) {
        None => {
            assert!(matches!(r, Ok(false)));
            assert!(s.len() == have);
        }
        Some((len, vl)) => {
            if have < vl + len {
                assert!(matches!(r, Ok(false)));
                assert!(s.len() == have);
            } else {
                assert!(matches!(r, Ok(true)));
                assert!(s.len() == len);
                assert!(s.as_ptr() == raw[vl..].as_ptr());
            }
        }
    }
    std::mem::forget(r);
}

/// encode(()) writes exactly varint(0) and nothing else; decode gives it back.
#[kani::proof]
#[kani::unwind(12)]
fn lemma_encode_decode_empty_message() {
    let pre: u8 = kani::any();
    let mut dst = buf_from(&[pre]);
    let mut codec = Codec::<(), ()>::new(kani::any());
    let r = Encoder::encode(&mut codec, (), &mut dst);
    assert!(r.is_ok());
    assert!(dst.len() == 2 && dst[0] == pre && dst[1] == 0);
    std::mem::forget(r);
}

/// Vacuity canary: must FAIL.
#[kani::proof]
#[kani::unwind(12)]
#[kani::stub(alloc::fmt::format, no_format)]
fn canary_decode_never_errs() {
    let raw: [u8; 2] = kani::any();
    kani::assume(raw[0] < 0x80);
    let mut codec = Codec::<(), ()>::new(kani::any());
    let mut src = buf_from(&raw);
    let r = Decoder::decode(&mut codec, &mut src);
    assert!(r.is_ok());
    std::mem::forget(r);
}
