// C36 — subscription filters bound what peers can make us track.
// Contract from the statement, on the VERBATIM text of subscription_filter.rs
// (trait TopicSubscriptionFilter with its default methods, WhitelistSubscriptionFilter,
// MaxCountSubscriptionFilter, CombinedSubscriptionFilters: extracted item by item on
// every run, unit.json `fragments`) compiled in the private module `frag` against
// DECLARED stand-ins:
//   * `TopicHash` is a one-byte newtype (the filters use a topic only through
//     Clone / Eq / Ord / Hash; the real one wraps a String -- measured: with String topics
//     in shim cells and a real BTreeSet even a one-entry request timed out at 240 s);
//   * `Subscription` has the three fields of crate::types::Subscription with the REAL
//     SubscriptionAction / SubscriptionOpts and the same derives;
//   * HashMap / HashSet / BTreeSet are the dependency shims (CAP 4).
// Obligations:
//  * every returned subscription is one of the request's entries and its topic is
//    allowed by the filter (so the tracked set, which only ever grows by returned
//    Subscribe entries, contains allowed topics only);
//  * MaxCount: a request with more than max_subscriptions_per_request entries is an Err;
//    Ok(result) => the tracked set AFTER applying result has <= max_subscribed_topics topics;
//  * Err => nothing changed (the filter's own state; the tracked set is only changed by
//    the caller on Ok).
// Requests: <= 3 entries with SYMBOLIC topics out of 3 and symbolic actions (so every
// duplicate pattern is covered); tracked set and whitelists: any subset of the 3 topics.
include!(concat!(env!("LIBP2P_VERIF"), "/shims/tracing_off.rs"));

pub(crate) mod frag {
    #![allow(dead_code, unused_imports)]
    pub(crate) use crate::types::{SubscriptionAction, SubscriptionOpts};
    pub(crate) use crate::verif_shims::{BTreeSet, HashMap, HashSet};

    /// stand-in for crate::TopicHash (a String newtype): one byte
    #[derive(Debug, Clone, PartialEq, Eq, Hash, PartialOrd, Ord)]
    pub(crate) struct TopicHash(pub(crate) u8);

    /// stand-in for crate::types::Subscription: same fields, same derives
    #[derive(Debug, Clone, PartialEq, Eq, Hash)]
    pub(crate) struct Subscription {
        pub(crate) action: SubscriptionAction,
        pub(crate) topic_hash: TopicHash,
        pub(crate) options: SubscriptionOpts,
    }

    include!(concat!(env!("LIBP2P_VERIF_GEN"), "/C36/filters_fragment.rs"));
}
use frag::{
    BTreeSet, CombinedSubscriptionFilters, HashSet, MaxCountSubscriptionFilter, Subscription, SubscriptionAction,
    SubscriptionOpts, TopicHash, TopicSubscriptionFilter, WhitelistSubscriptionFilter,
};

fn any_action() -> SubscriptionAction {
    if kani::any() { SubscriptionAction::Subscribe } else { SubscriptionAction::Unsubscribe }
}
fn any_topic() -> TopicHash {
    let t: u8 = kani::any();
    kani::assume(t < 3);
    TopicHash(t)
}

/// three request entries with symbolic topics (out of 3) and symbolic actions
fn request() -> [Subscription; 3] {
    [
        Subscription { action: any_action(), topic_hash: any_topic(), options: SubscriptionOpts::default() },
        Subscription { action: any_action(), topic_hash: any_topic(), options: SubscriptionOpts::default() },
        Subscription { action: any_action(), topic_hash: any_topic(), options: SubscriptionOpts::default() },
    ]
}

fn any_tracked() -> (BTreeSet<TopicHash>, [bool; 3]) {
    let mut s = BTreeSet::new();
    let mut inn = [false; 3];
    let mut j = 0u8;
    while j < 3 {
        if kani::any() {
            s.insert(TopicHash(j));
            inn[j as usize] = true;
        }
        j += 1;
    }
    (s, inn)
}

fn any_whitelist() -> (WhitelistSubscriptionFilter, [bool; 3]) {
    let mut w = HashSet::new();
    let mut allowed = [false; 3];
    let mut j = 0u8;
    while j < 3 {
        if kani::any() {
            w.insert(TopicHash(j));
            allowed[j as usize] = true;
        }
        j += 1;
    }
    (WhitelistSubscriptionFilter(w), allowed)
}

fn flag(a: &[bool; 3], t: &TopicHash) -> bool {
    match t.0 {
        0 => a[0],
        1 => a[1],
        _ => a[2],
    }
}

/// result ⊆ request[..n], and every returned topic is allowed
fn subset_and_allowed(res: &HashSet<&Subscription>, req: &[Subscription; 3], n: usize, allowed: &[bool; 3]) {
    for r in res.iter() {
        let mut found = false;
        let mut i = 0;
        while i < 3 {
            if i < n && std::ptr::eq(*r, &req[i]) {
                found = true;
            }
            i += 1;
        }
        assert!(found, "a returned subscription is not an entry of the request");
        assert!(flag(allowed, &r.topic_hash), "a returned subscription is about a topic the filter does not allow");
    }
}

/// size of the tracked set after the caller applied `res` to it
fn tracked_after(res: &HashSet<&Subscription>, inn: &[bool; 3]) -> usize {
    let mut post = *inn;
    for r in res.iter() {
        let v = matches!(r.action, SubscriptionAction::Subscribe);
        match r.topic_hash.0 {
            0 => post[0] = v,
            1 => post[1] = v,
            _ => post[2] = v,
        }
    }
    post[0] as usize + post[1] as usize + post[2] as usize
}

tracing_off! {
#[kani::proof]
#[kani::unwind(6)]
fn whitelist_returns_only_allowed_request_entries() {
    let req = request();
    let n: usize = kani::any();
    kani::assume(n <= 3);
    let (tracked, _) = any_tracked();
    let (mut f, allowed) = any_whitelist();
    let r = f.filter_incoming_subscriptions(&req[..n], &tracked);
    kani::cover!(n == 3 && req[0].topic_hash == req[1].topic_hash);
    match &r {
        Ok(res) => {
            subset_and_allowed(res, &req, n, &allowed);
            kani::cover!(res.len() == 3);
        }
        Err(_) => assert!(false, "the whitelist filter rejected a request (it only drops entries)"),
    }
    // can_subscribe agrees with the whitelist
    let j = any_topic();
    assert!(f.can_subscribe(&j) == flag(&allowed, &j));
    std::mem::forget(r);
    std::mem::forget((f, tracked, req));
}
}

tracing_off! {
#[kani::proof]
#[kani::unwind(6)]
fn max_count_bounds_request_and_tracked_set() {
    let req = request();
    let n: usize = kani::any();
    kani::assume(n <= 3);
    let (tracked, inn) = any_tracked();
    let (w, allowed) = any_whitelist();
    let max_topics: usize = kani::any();
    let max_req: usize = kani::any();
    kani::assume(max_topics <= 4 && max_req <= 4);
    let mut f = MaxCountSubscriptionFilter { filter: w, max_subscribed_topics: max_topics, max_subscriptions_per_request: max_req };
    let r = f.filter_incoming_subscriptions(&req[..n], &tracked);
    kani::cover!(r.is_ok() && n == 3);
    kani::cover!(r.is_err() && n <= max_req);
    match &r {
        Ok(res) => {
            assert!(n <= max_req, "a request with more than max_subscriptions_per_request entries was accepted");
            subset_and_allowed(res, &req, n, &allowed);
            assert!(tracked_after(res, &inn) <= max_topics, "accepted request lets the tracked set exceed max_subscribed_topics");
        }
        Err(_) => {}
    }
    if n > max_req {
        assert!(r.is_err());
    }
    // a rejected (and an accepted) request leaves the filter itself unchanged
    assert!(f.max_subscribed_topics == max_topics && f.max_subscriptions_per_request == max_req);
    let j = any_topic();
    assert!(f.filter.0.contains(&j) == flag(&allowed, &j));
    assert!(tracked.len() == inn[0] as usize + inn[1] as usize + inn[2] as usize);
    std::mem::forget(r);
    std::mem::forget((f, tracked, req));
}
}

tracing_off! {
#[kani::proof]
#[kani::unwind(6)]
fn combined_returns_only_topics_both_filters_allow() {
    let req = request();
    let n: usize = kani::any();
    kani::assume(n <= 3);
    let (tracked, _) = any_tracked();
    let (w1, a1) = any_whitelist();
    let (w2, a2) = any_whitelist();
    let both = [a1[0] && a2[0], a1[1] && a2[1], a1[2] && a2[2]];
    let mut f = CombinedSubscriptionFilters { filter1: w1, filter2: w2 };
    let r = f.filter_incoming_subscriptions(&req[..n], &tracked);
    match &r {
        Ok(res) => subset_and_allowed(res, &req, n, &both),
        Err(_) => assert!(false, "the combined whitelist filter rejected a request"),
    }
    let j = any_topic();
    assert!(f.can_subscribe(&j) == flag(&both, &j));
    std::mem::forget(r);
    std::mem::forget((f, tracked, req));
}
}

/// Vacuity canary: must FAIL (MaxCount does accept some requests).
tracing_off! {
#[kani::proof]
#[kani::unwind(6)]
fn canary_max_count_rejects_everything() {
    let req = request();
    let (tracked, _) = any_tracked();
    let (w, _) = any_whitelist();
    let mut f = MaxCountSubscriptionFilter { filter: w, max_subscribed_topics: 4, max_subscriptions_per_request: 4 };
    let r = f.filter_incoming_subscriptions(&req[..1], &tracked);
    assert!(r.is_err());
    std::mem::forget(r);
    std::mem::forget((f, tracked, req));
}
}
