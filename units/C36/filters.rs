// C36 — subscription filters bound what peers can make us track.
// Contract from the statement, on the real filter_incoming_subscriptions of
// WhitelistSubscriptionFilter, MaxCountSubscriptionFilter<Whitelist> and
// CombinedSubscriptionFilters<Whitelist, Whitelist>:
//  * every returned subscription is one of the request's entries and its topic is
//    allowed by the filter (so the tracked set, which only ever grows by returned
//    Subscribe entries, contains allowed topics only);
//  * MaxCount: a request with more than max_subscriptions_per_request entries is an Err;
//    Ok(result) => the tracked set AFTER applying result has <= max_subscribed_topics topics;
//  * Err => nothing changed (the filter's own state; the tracked set is only changed by
//    the caller on Ok).
// HashMap/HashSet -> dependency shim; the tracked set stays a real std BTreeSet.
// Requests: <= 3 entries over 3 one-letter topics, symbolic actions, two topic patterns
// (all distinct / with a duplicate topic); tracked set: any subset of the 3 topics.
include!(concat!(env!("LIBP2P_VERIF"), "/shims/tracing_off.rs"));

use crate::types::{SubscriptionAction, SubscriptionOpts};

fn topics() -> [TopicHash; 3] {
    [TopicHash::from_raw("a"), TopicHash::from_raw("b"), TopicHash::from_raw("c")]
}

fn any_action() -> SubscriptionAction {
    if kani::any() { SubscriptionAction::Subscribe } else { SubscriptionAction::Unsubscribe }
}

/// request entries about topics t[pat[0]], t[pat[1]], t[pat[2]] with symbolic actions
fn request(t: &[TopicHash; 3], pat: [usize; 3]) -> [Subscription; 3] {
    [
        Subscription { action: any_action(), topic_hash: t[pat[0]].clone(), options: SubscriptionOpts::default() },
        Subscription { action: any_action(), topic_hash: t[pat[1]].clone(), options: SubscriptionOpts::default() },
        Subscription { action: any_action(), topic_hash: t[pat[2]].clone(), options: SubscriptionOpts::default() },
    ]
}

fn any_tracked(t: &[TopicHash; 3]) -> (BTreeSet<TopicHash>, [bool; 3]) {
    let mut s = BTreeSet::new();
    let mut inn = [false; 3];
    let mut j = 0;
    while j < 3 {
        if kani::any() {
            s.insert(t[j].clone());
            inn[j] = true;
        }
        j += 1;
    }
    (s, inn)
}

fn any_whitelist(t: &[TopicHash; 3]) -> (WhitelistSubscriptionFilter, [bool; 3]) {
    let mut w = HashSet::new();
    let mut allowed = [false; 3];
    let mut j = 0;
    while j < 3 {
        if kani::any() {
            w.insert(t[j].clone());
            allowed[j] = true;
        }
        j += 1;
    }
    (WhitelistSubscriptionFilter(w), allowed)
}

fn index_of(t: &[TopicHash; 3], x: &TopicHash) -> usize {
    if *x == t[0] { 0 } else if *x == t[1] { 1 } else { 2 }
}

/// result ⊆ request[..n], and every returned topic is allowed
fn subset_and_allowed(res: &HashSet<&Subscription>, req: &[Subscription; 3], n: usize, t: &[TopicHash; 3], allowed: &[bool; 3]) {
    for r in res.iter() {
        let mut found = false;
        let mut i = 0;
        while i < 3 {
            if i < n && std::ptr::eq(*r, &req[i]) {
                found = true;
            }
            i += 1;
        }
        assert!(found);
        assert!(allowed[index_of(t, &r.topic_hash)]);
    }
}

/// size of the tracked set after applying `res` to it
fn tracked_after(res: &HashSet<&Subscription>, t: &[TopicHash; 3], inn: &[bool; 3]) -> usize {
    let mut post = *inn;
    for r in res.iter() {
        let j = index_of(t, &r.topic_hash);
        post[j] = matches!(r.action, SubscriptionAction::Subscribe);
    }
    post[0] as usize + post[1] as usize + post[2] as usize
}

fn whitelist_case(pat: [usize; 3]) {
    let t = topics();
    let req = request(&t, pat);
    let n: usize = kani::any();
    kani::assume(n <= 3);
    let (tracked, _) = any_tracked(&t);
    let (mut f, allowed) = any_whitelist(&t);
    let r = f.filter_incoming_subscriptions(&req[..n], &tracked);
    match &r {
        Ok(res) => subset_and_allowed(res, &req, n, &t, &allowed),
        Err(_) => assert!(false), // the whitelist filter never rejects a request, it only drops entries
    }
    // can_subscribe agrees with the whitelist
    let j: usize = kani::any();
    kani::assume(j < 3);
    assert!(f.can_subscribe(&t[j]) == allowed[j]);
    std::mem::forget(r);
    std::mem::forget((f, tracked, req, t));
}

tracing_off! {
#[kani::proof]
#[kani::unwind(6)]
fn whitelist_returns_only_allowed_request_entries() {
    whitelist_case([0, 1, 2]);
}
}

tracing_off! {
#[kani::proof]
#[kani::unwind(6)]
fn whitelist_returns_only_allowed_request_entries_dup() {
    whitelist_case([0, 0, 1]);
}
}

fn max_count_case(pat: [usize; 3]) {
    let t = topics();
    let req = request(&t, pat);
    let n: usize = kani::any();
    kani::assume(n <= 3);
    let (tracked, inn) = any_tracked(&t);
    let (w, allowed) = any_whitelist(&t);
    let max_topics: usize = kani::any();
    let max_req: usize = kani::any();
    kani::assume(max_topics <= 4 && max_req <= 4);
    let mut f = MaxCountSubscriptionFilter { filter: w, max_subscribed_topics: max_topics, max_subscriptions_per_request: max_req };
    let r = f.filter_incoming_subscriptions(&req[..n], &tracked);
    kani::cover!(r.is_ok() && n == 3);
    kani::cover!(r.is_err() && n <= max_req);
    match &r {
        Ok(res) => {
            assert!(n <= max_req);
            subset_and_allowed(res, &req, n, &t, &allowed);
            assert!(tracked_after(res, &t, &inn) <= max_topics);
        }
        Err(_) => {}
    }
    if n > max_req {
        assert!(r.is_err());
    }
    // a rejected (and an accepted) request leaves the filter itself unchanged
    assert!(f.max_subscribed_topics == max_topics && f.max_subscriptions_per_request == max_req);
    let j: usize = kani::any();
    kani::assume(j < 3);
    assert!(f.filter.0.contains(&t[j]) == allowed[j]);
    assert!(tracked.len() == inn[0] as usize + inn[1] as usize + inn[2] as usize);
    std::mem::forget(r);
    std::mem::forget((f, tracked, req, t));
}

tracing_off! {
#[kani::proof]
#[kani::unwind(6)]
fn max_count_bounds_request_and_tracked_set() {
    max_count_case([0, 1, 2]);
}
}

tracing_off! {
#[kani::proof]
#[kani::unwind(6)]
fn max_count_bounds_request_and_tracked_set_dup() {
    max_count_case([0, 0, 1]);
}
}

tracing_off! {
#[kani::proof]
#[kani::unwind(6)]
fn combined_returns_only_topics_both_filters_allow() {
    let t = topics();
    let req = request(&t, [0, 1, 2]);
    let n: usize = kani::any();
    kani::assume(n <= 3);
    let (tracked, _) = any_tracked(&t);
    let (w1, a1) = any_whitelist(&t);
    let (w2, a2) = any_whitelist(&t);
    let both = [a1[0] && a2[0], a1[1] && a2[1], a1[2] && a2[2]];
    let mut f = CombinedSubscriptionFilters { filter1: w1, filter2: w2 };
    let r = f.filter_incoming_subscriptions(&req[..n], &tracked);
    match &r {
        Ok(res) => subset_and_allowed(res, &req, n, &t, &both),
        Err(_) => assert!(false),
    }
    let j: usize = kani::any();
    kani::assume(j < 3);
    assert!(f.can_subscribe(&t[j]) == both[j]);
    std::mem::forget(r);
    std::mem::forget((f, tracked, req, t));
}
}

/// Vacuity canary: must FAIL (MaxCount does accept some requests).
tracing_off! {
#[kani::proof]
#[kani::unwind(6)]
fn canary_max_count_rejects_everything() {
    let t = topics();
    let req = request(&t, [0, 1, 2]);
    let (tracked, _) = any_tracked(&t);
    let (w, _) = any_whitelist(&t);
    let mut f = MaxCountSubscriptionFilter { filter: w, max_subscribed_topics: 4, max_subscriptions_per_request: 4 };
    let r = f.filter_incoming_subscriptions(&req[..1], &tracked);
    assert!(r.is_err());
    std::mem::forget(r);
    std::mem::forget((f, tracked, req, t));
}
}
