// C31 — gossipsub RPC size limits are applied PER FRAME.
// GossipsubCodec::decode hands validate_rpc_limits(buf, max_size, max_publish, max_control)
// the codec's WHOLE read buffer: length prefix ++ frame ++ whatever already arrived
// behind it, and is called again with the grown buffer after every read.  The verdict
// is a function of that buffer only, so one-step contracts over all buffers cover every
// split / coalescing of the byte stream.  Contract from the statement:
//  (a) an RPC whose encoding (n bytes) is within max_transmit_size and within the
//      publish/control limits is accepted (Ok(true)) — also when n == max, and whatever
//      bytes of following frames are already buffered behind it;
//  (b) an RPC whose encoding exceeds max_transmit_size is rejected (Err);
//  (c) an in-limit RPC that has only partly arrived is not rejected (Ok(false): wait).
// Decidable formulation (measured: fully symbolic frame bytes send prost's recursive
// skip_field out of memory): frames have CONCRETE field headers (key byte, length
// byte) and SYMBOLIC payload bytes; trailing bytes are symbolic, buffer LENGTHS concrete,
// all three limits symbolic.  One-byte length prefix.

fn no_format(_args: std::fmt::Arguments<'_>) -> String {
    String::new()
}

const REST: usize = 3;
const CAP: usize = 1 + 6 + REST;

/// `[n] ++ k publish fields (key 0x12, len 1, one symbolic byte) ++ symbolic bytes`; n = 3k
fn publish_frames(k: usize) -> [u8; CAP] {
    let mut raw = [0u8; CAP];
    raw[0] = (3 * k) as u8;
    let mut i = 0;
    while i < k {
        raw[1 + 3 * i] = 0x12;
        raw[2 + 3 * i] = 1;
        raw[3 + 3 * i] = kani::any();
        i += 1;
    }
    let mut j = 1 + 3 * k;
    while j < CAP {
        raw[j] = kani::any();
        j += 1;
    }
    raw
}

fn alone(k: usize) {
    let raw = publish_frames(k);
    let n = 3 * k;
    let max: usize = kani::any();
    kani::assume(max >= n); // the RPC's encoding is within max_transmit_size
    let mp: usize = kani::any();
    kani::assume(mp >= k);
    let r = validate_rpc_limits(&raw[..1 + n], max, mp, kani::any());
    assert!(matches!(r, Ok(true)));
    std::mem::forget(r);
}

/// (a) one complete in-limit frame, nothing behind it — includes n == max_transmit_size
#[kani::proof]
#[kani::unwind(16)]
#[kani::stub(alloc::fmt::format, no_format)]
fn in_limit_frame_is_accepted() {
    alone(0);
    alone(1);
    alone(2);
}

fn coalesced(k: usize, extra: usize) {
    let raw = publish_frames(k);
    let n = 3 * k;
    let have = 1 + n + extra; // `extra` bytes of the next frame(s) are already buffered
    let max: usize = kani::any();
    // the frame is within the limit even when its length prefix is counted
    kani::assume(max >= 1 + n);
    let mp: usize = kani::any();
    kani::assume(mp >= k);
    let r = validate_rpc_limits(&raw[..have], max, mp, kani::any());
    assert!(matches!(r, Ok(true)));
    std::mem::forget(r);
}

/// (a) coalescing: bytes already buffered behind a complete in-limit frame never reject it
/// (buffer lengths are concrete: a symbolic slice length sends the varint readers of
/// unsigned-varint/prost into a 300 s timeout)
#[kani::proof]
#[kani::unwind(16)]
#[kani::stub(alloc::fmt::format, no_format)]
fn coalesced_frames_do_not_reject_in_limit_frame() {
    let mut extra = 1;
    while extra <= REST {
        coalesced(0, extra);
        coalesced(1, extra);
        coalesced(2, extra);
        extra += 1;
    }
}

fn oversized(k: usize, extra: usize) {
    let raw = publish_frames(k);
    let n = 3 * k;
    let max: usize = kani::any();
    kani::assume(max < n);
    let r = validate_rpc_limits(&raw[..1 + n + extra], max, kani::any(), kani::any());
    assert!(r.is_err());
    std::mem::forget(r);
}

/// (b) a complete frame whose own length exceeds max_transmit_size is rejected
#[kani::proof]
#[kani::unwind(16)]
#[kani::stub(alloc::fmt::format, no_format)]
fn oversized_frame_is_rejected() {
    oversized(1, 0);
    oversized(2, 0);
    oversized(1, 2);
    oversized(2, REST);
}

fn incomplete(n: u8, have: usize) {
    let mut raw: [u8; 7] = kani::any();
    raw[0] = n;
    let max: usize = kani::any();
    kani::assume(max >= n as usize);
    let r = validate_rpc_limits(&raw[..have], max, kani::any(), kani::any());
    assert!(matches!(r, Ok(false)));
    std::mem::forget(r);
}

fn oversized_incomplete(n: u8, have: usize) {
    let mut raw: [u8; 7] = kani::any();
    raw[0] = n; // one-byte prefix declaring n payload bytes
    let max: usize = kani::any();
    kani::assume(max < n as usize);
    let r = validate_rpc_limits(&raw[..have], max, kani::any(), kani::any());
    kani::assert(r.is_err(), "C31: an over-limit frame split after its length prefix is not rejected (the decoder waits for, and buffers, the whole declared length)");
    std::mem::forget(r);
}

/// (b') the same RPC under the split "prefix first, payload later": it is rejected as soon
/// as its declared length is readable — under no split of the stream is an over-limit RPC
/// waited for (Ok(false) would make the reader buffer up to the declared length, and a
/// peer that announces a huge RPC and stalls would never be rejected)
#[kani::proof]
#[kani::unwind(16)]
#[kani::stub(alloc::fmt::format, no_format)]
fn oversized_frame_is_rejected_from_its_prefix() {
    let mut have = 1;
    while have <= 6 {
        oversized_incomplete(6, have); // declared 6 > max, prefix + 0..=5 payload bytes buffered
        have += 1;
    }
    oversized_incomplete(127, 1);
    oversized_incomplete(127, 7);
}

/// (c) in-limit frame that has only partly arrived: wait for more bytes, never an error
#[kani::proof]
#[kani::unwind(16)]
#[kani::stub(alloc::fmt::format, no_format)]
fn incomplete_frame_waits() {
    let mut have = 0;
    while have <= 6 {
        incomplete(6, have); // declared 6 bytes, 0..5 of them (or not even the prefix) buffered
        have += 1;
    }
    incomplete(127, 7);
    incomplete(1, 1);
}

fn publish_count(k: usize) {
    let raw = publish_frames(k);
    let mp: usize = kani::any();
    let r = validate_rpc_limits(&raw[..1 + 3 * k], usize::MAX, mp, kani::any());
    assert!(matches!(r, Ok(true)) == (k <= mp));
    assert!(r.is_err() == (k > mp));
    std::mem::forget(r);
}

/// publish limit: a frame of k publish fields is accepted iff k <= max_publish_messages
#[kani::proof]
#[kani::unwind(16)]
#[kani::stub(alloc::fmt::format, no_format)]
fn publish_count_limit() {
    publish_count(0);
    publish_count(1);
    publish_count(2);
}

fn control_size(c: usize) {
    // [n] publish(0x12 01 b) control(0x1a c <c bytes>) subscription(0x0a 00)
    let mut raw = [0u8; 10];
    let n = 3 + 2 + c + 2;
    raw[0] = n as u8;
    raw[1] = 0x12;
    raw[2] = 1;
    raw[3] = kani::any();
    raw[4] = 0x1a;
    raw[5] = c as u8;
    let mut i = 0;
    while i < c {
        raw[6 + i] = kani::any();
        i += 1;
    }
    raw[6 + c] = 0x0a;
    raw[7 + c] = 0;
    let mc: usize = kani::any();
    let r = validate_rpc_limits(&raw[..1 + n], usize::MAX, usize::MAX, mc);
    // "total byte size of all control messages and subscriptions": the two fields with
    // their headers are 2 + c + 2 bytes, their payloads c bytes; publish bytes never count
    if 2 + c + 2 <= mc {
        assert!(matches!(r, Ok(true)));
    }
    if c > mc {
        assert!(r.is_err());
    }
    std::mem::forget(r);
}

/// control limit: control + subscription bytes within max_control_message_size are
/// accepted, a control payload above it is rejected
#[kani::proof]
#[kani::unwind(16)]
#[kani::stub(alloc::fmt::format, no_format)]
fn control_size_limit() {
    control_size(0);
    control_size(1);
    control_size(2);
}

/// Vacuity canary: must FAIL (a 3-byte frame with max_transmit_size < 3 is not accepted).
#[kani::proof]
#[kani::unwind(16)]
#[kani::stub(alloc::fmt::format, no_format)]
fn canary_everything_accepted() {
    let raw = publish_frames(1);
    let r = validate_rpc_limits(&raw[..4], kani::any(), usize::MAX, usize::MAX);
    assert!(matches!(r, Ok(true)));
    std::mem::forget(r);
}
