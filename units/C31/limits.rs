// C31 — gossipsub RPC size limits are applied PER FRAME.
// validate_rpc_limits(buf, max_size, max_publish, max_control) sees the codec's
// whole read buffer: length prefix ++ frame ++ whatever already arrived behind it.
// Contract from the statement:
//  (a) the verdict on a complete first frame does not depend on the bytes behind it
//      (coalesced next frames), and
//  (b) the size limit concerns the frame's own length n: n <= max is never a size
//      rejection, n > max always is.
// Buffers of <= 7 bytes, one-byte length prefix, real prost field walker.

fn no_format(_args: std::fmt::Arguments<'_>) -> String {
    String::new()
}

fn class(r: &io::Result<bool>) -> u8 {
    match r {
        Ok(true) => 2,
        Ok(false) => 1,
        Err(_) => 0,
    }
}

/// (a) coalescing: bytes behind a complete frame never change its verdict
#[kani::proof]
#[kani::unwind(12)]
#[kani::stub(alloc::fmt::format, no_format)]
fn verdict_depends_only_on_first_frame() {
    let raw: [u8; 7] = kani::any();
    let n = raw[0] as usize;
    kani::assume(n <= 4); // one-byte prefix, frame of n bytes, then 6 - n trailing bytes
    let have: usize = kani::any();
    kani::assume(have >= 1 + n && have <= 7);
    let max: usize = kani::any();
    let (mp, mc): (usize, usize) = (kani::any(), kani::any());
    kani::assume(n <= max); // the frame itself is within the transmit size limit
    let alone = validate_rpc_limits(&raw[..1 + n], usize::MAX, mp, mc);
    let coalesced = validate_rpc_limits(&raw[..have], max, mp, mc);
    kani::cover!(class(&alone) == 2 && have > 1 + n);
    assert!(class(&alone) == class(&coalesced));
    std::mem::forget((alone, coalesced));
}

/// (b) a frame whose own length exceeds max_transmit_size is rejected
#[kani::proof]
#[kani::unwind(12)]
#[kani::stub(alloc::fmt::format, no_format)]
fn oversized_frame_is_rejected() {
    let raw: [u8; 7] = kani::any();
    let n = raw[0] as usize;
    kani::assume(n >= 1 && n <= 6);
    let max: usize = kani::any();
    kani::assume(max < n);
    let r = validate_rpc_limits(&raw[..1 + n], max, usize::MAX, usize::MAX);
    assert!(r.is_err());
    std::mem::forget(r);
}

/// incomplete frame within the limits: wait for more bytes (Ok(false)), never an error
#[kani::proof]
#[kani::unwind(12)]
#[kani::stub(alloc::fmt::format, no_format)]
fn incomplete_frame_waits() {
    let raw: [u8; 7] = kani::any();
    let n = raw[0] as usize;
    kani::assume(n >= 1 && n < 0x80);
    let have: usize = kani::any();
    kani::assume(have >= 1 && have <= 7 && have < 1 + n);
    let max: usize = kani::any();
    kani::assume(max >= n + 1);
    let r = validate_rpc_limits(&raw[..have], max, usize::MAX, usize::MAX);
    assert!(matches!(r, Ok(false)));
    std::mem::forget(r);
}

/// publish / control limits: a frame of k publish fields is accepted iff k <= max_publish
#[kani::proof]
#[kani::unwind(12)]
#[kani::stub(alloc::fmt::format, no_format)]
fn publish_count_limit() {
    // frame = up to two `publish` fields (tag 2, wire type 2, empty payload): 0x12 0x00
    let k: usize = kani::any();
    kani::assume(k <= 2);
    let buf = [2 * k as u8, 0x12, 0x00, 0x12, 0x00];
    let mp: usize = kani::any();
    let r = validate_rpc_limits(&buf[..1 + 2 * k], usize::MAX, mp, usize::MAX);
    assert!(matches!(r, Ok(true)) == (k <= mp));
    assert!(r.is_err() == (k > mp));
    std::mem::forget(r);
}

/// Vacuity canary: must FAIL.
#[kani::proof]
#[kani::unwind(12)]
#[kani::stub(alloc::fmt::format, no_format)]
fn canary_everything_accepted() {
    let raw: [u8; 4] = kani::any();
    let r = validate_rpc_limits(&raw, usize::MAX, usize::MAX, usize::MAX);
    assert!(matches!(r, Ok(true)));
    std::mem::forget(r);
}
