// C20 — PeerId decoding accepts exactly identity multihashes of at most 42
// bytes and SHA2-256 multihashes; byte encoding round-trips.

/// the acceptance predicate, from the statement
fn spec_accepts(code: u64, digest_len: usize) -> bool {
    code == 0x12 || (code == 0x00 && digest_len <= 42)
}

/// from_multihash over EVERY multihash code (u64) and every digest length 0..=64
/// (digest content symbolic).
#[kani::proof]
#[kani::unwind(66)]
fn contract_from_multihash() {
    let code: u64 = kani::any();
    let digest: [u8; 64] = kani::any();
    let n: usize = kani::any();
    kani::assume(n <= 64);
    let mh = Multihash::wrap(code, &digest[..n]).unwrap();
    match PeerId::from_multihash(mh) {
        Ok(p) => {
            assert!(spec_accepts(code, n));
            // the peer id IS that multihash (nothing re-hashed or truncated)
            assert!(p.multihash == mh);
            assert!(Multihash::from(p) == mh);
        }
        Err(back) => {
            assert!(!spec_accepts(code, n));
            assert!(back == mh);
        }
    }
}

/// from_bytes on EVERY input of N bytes whose two varints are one byte each:
/// [code, size, digest...].  Ok => accepted by the predicate and to_bytes gives the input
/// back; well-formed multihash bytes of an acceptable kind are never refused.
fn from_bytes_len<const N: usize>() {
    let raw: [u8; N] = kani::any();
    if N >= 1 {
        kani::assume(raw[0] < 0x80);
    }
    if N >= 2 {
        kani::assume(raw[1] < 0x80);
    }
    let r = PeerId::from_bytes(&raw);
    let well_formed = N >= 2 && raw[1] as usize == N - 2;
    match r {
        Ok(p) => {
            assert!(well_formed);
            assert!(spec_accepts(raw[0] as u64, raw[1] as usize));
            let back = p.to_bytes();
            assert!(back.len() == N);
            let mut i = 0;
            while i < N {
                assert!(back[i] == raw[i]);
                i += 1;
            }
            std::mem::forget(back);
        }
        Err(e) => {
            assert!(!(well_formed && spec_accepts(raw[0] as u64, raw[1] as usize)));
            std::mem::forget(e);
        }
    }
}

#[kani::proof]
#[kani::unwind(12)]
fn contract_from_bytes_short() {
    from_bytes_len::<0>();
    from_bytes_len::<1>();
    from_bytes_len::<2>();
}

#[kani::proof]
#[kani::unwind(12)]
fn contract_from_bytes_3() {
    from_bytes_len::<3>();
}

#[kani::proof]
#[kani::unwind(12)]
fn contract_from_bytes_5() {
    from_bytes_len::<5>();
}

/// Vacuity canary: must FAIL.
#[kani::proof]
#[kani::unwind(66)]
fn canary_every_code_accepted() {
    let code: u64 = kani::any();
    let mh = Multihash::wrap(code, &[1u8, 2, 3]).unwrap();
    assert!(PeerId::from_multihash(mh).is_ok());
}
