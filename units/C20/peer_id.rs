// C20 — PeerId decoding accepts exactly identity multihashes of at most 42
// bytes and SHA2-256 multihashes; byte encoding round-trips.

/// the acceptance predicate, from the statement
fn spec_accepts(code: u64, digest_len: usize) -> bool {
    code == 0x12 || (code == 0x00 && digest_len <= 42)
}

/// from_multihash over EVERY multihash code (u64) and every digest length 0..=64
/// (digest content symbolic).
#[kani::proof]
#[kani::unwind(66)]
fn contract_from_multihash() {
    let code: u64 = kani::any();
    let digest: [u8; 64] = kani::any();
    let n: usize = kani::any();
    kani::assume(n <= 64);
    let mh = Multihash::wrap(code, &digest[..n]).unwrap();
    match PeerId::from_multihash(mh) {
        Ok(p) => {
            assert!(spec_accepts(code, n));
            // the peer id IS that multihash (nothing re-hashed or truncated)
            assert!(p.multihash == mh);
            assert!(Multihash::from(p) == mh);
        }
        Err(back) => {
            assert!(!spec_accepts(code, n));
            assert!(back == mh);
        }
    }
}

/// from_bytes on short inputs: [code, size, digest...] with one-byte varints.
/// Ok => accepted by the predicate and to_bytes gives the input back; well-formed
/// multihash bytes of an acceptable kind are never refused.
#[kani::proof]
#[kani::unwind(12)]
fn contract_from_bytes_short() {
    let raw: [u8; 6] = kani::any();
    let n: usize = kani::any();
    kani::assume(n <= 6);
    kani::assume(raw[0] < 0x80 && raw[1] < 0x80);
    let r = PeerId::from_bytes(&raw[..n]);
    let well_formed = n >= 2 && raw[1] as usize == n - 2;
    match r {
        Ok(p) => {
            assert!(well_formed);
            assert!(spec_accepts(raw[0] as u64, raw[1] as usize));
            let back = p.to_bytes();
            assert!(back.len() == n);
            let mut i = 0;
            while i < n {
                assert!(back[i] == raw[i]);
                i += 1;
            }
            std::mem::forget(back);
        }
        Err(e) => {
            assert!(!(well_formed && spec_accepts(raw[0] as u64, raw[1] as usize)));
            std::mem::forget(e);
        }
    }
}

/// byte round trip from the PeerId side: from_bytes(p.to_bytes()) == p for SHA2-256 and
/// identity peer ids (digest of <= 3 symbolic bytes)
#[kani::proof]
#[kani::unwind(12)]
fn lemma_to_bytes_from_bytes_round_trip() {
    let code: u64 = if kani::any() { 0x12 } else { 0x00 };
    let digest: [u8; 3] = kani::any();
    let n: usize = kani::any();
    kani::assume(n <= 3);
    let mh = Multihash::wrap(code, &digest[..n]).unwrap();
    let p = match PeerId::from_multihash(mh) {
        Ok(p) => p,
        Err(_) => {
            assert!(false);
            return;
        }
    };
    let bytes = p.to_bytes();
    assert!(bytes.len() == 2 + n && bytes[0] == code as u8 && bytes[1] == n as u8);
    let r = PeerId::from_bytes(&bytes);
    match &r {
        Ok(q) => assert!(*q == p),
        Err(_) => assert!(false),
    }
    std::mem::forget(r);
    std::mem::forget(bytes);
}

/// Vacuity canary: must FAIL.
#[kani::proof]
#[kani::unwind(66)]
fn canary_every_code_accepted() {
    let code: u64 = kani::any();
    let mh = Multihash::wrap(code, &[1u8, 2, 3]).unwrap();
    assert!(PeerId::from_multihash(mh).is_ok());
}
