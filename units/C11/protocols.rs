// C11 — Protocol-change notifications track the advertised protocol sets.
//
// Code under contract (extracted verbatim on every run into
// $LIBP2P_VERIF_GEN/C11/fragments.rs, shim tree only):
//   * the four function items ProtocolsChange::{from_initial_protocols, add, remove,
//     from_full_sets} of swarm/src/handler.rs, together with the item text of
//     `enum ProtocolsChange`, `struct ProtocolsAdded`, `struct ProtocolsRemoved`,
//     compiled in this module so that `HashMap` / `HashSet` resolve to the
//     dependency shim (fixed-capacity arrays, DESIGN §2.4) instead of hashbrown;
//   * the two `ReportRemoteProtocols` arms of Connection::poll
//     (swarm/src/connection.rs), which own the second half of the remote fold
//     (`remote_supported_protocols.extend(protocol_buffer.drain(..))`).
//
// Contract, from the property statement:
//   LOCAL   the handler folds every LocalProtocolsChange it receives (Added: insert,
//           Removed: delete, in delivery order).  After every step the folded set is
//           exactly the set of VALID protocol names (StreamProtocol: starts with '/')
//           the listen protocol advertises now — duplicates in the advertised list
//           collapse, invalid names never appear.
//   REMOTE  folding RemoteProtocolsChange yields exactly (reported added) minus
//           (reported removed).
// Both are proved as ONE STEP FROM ANY STATE that satisfies the representation
// invariant below (inductive over all histories; bound = alphabet of 4 names, map
// capacity 4):
//   inv_local(existing, M):  M == { valid names among keys(existing) }
//                            (keys(existing) == names advertised at the last step,
//                             re-established as `keys_equal_advertised_names`)
//   inv_remote(R, M):        M == R   (R = Connection::remote_supported_protocols)
use crate::verif_shims::HashSet;

/// Unit-local stand-in for `std::collections::HashMap` as used by `from_full_sets`
/// (`values`, `values_mut`, `entry(k).and_modify(f).or_insert_with_key(g)`, `len`, `retain`).
/// Same ASSUMED CONTRACT as shims/collections.rs (finite map keyed by `Eq`, at most
/// MCAP entries, overflow = UNDECIDED), but every operation is ONE PASS over the cells
/// with constant indices and no reference to a cell escapes.  Measured reason: with the
/// shared shim's `Entry` (a `&mut` to a cell chosen by a symbolic index) one
/// `from_full_sets` call on a 1-element list did not finish in 300 s; an empty list took 46 s.
pub(crate) const MCAP: usize = 4;
pub(crate) struct HashMap<K, V> {
    pub(crate) slots: [Option<(K, V)>; MCAP],
}
pub(crate) struct MapEntry<'a, K, V> {
    map: &'a mut HashMap<K, V>,
    key: K,
}
impl<K: Eq, V> HashMap<K, V> {
    pub(crate) fn new() -> Self {
        HashMap { slots: [None, None, None, None] }
    }
    pub(crate) fn len(&self) -> usize {
        let mut n = 0;
        for c in self.slots.iter() {
            if c.is_some() {
                n += 1;
            }
        }
        n
    }
    pub(crate) fn contains_key(&self, k: &K) -> bool {
        let mut found = false;
        for c in self.slots.iter() {
            if let Some((kk, _)) = c {
                if kk == k {
                    found = true;
                }
            }
        }
        found
    }
    pub(crate) fn values(&self) -> impl Iterator<Item = &V> {
        self.slots.iter().filter_map(|c| c.as_ref().map(|kv| &kv.1))
    }
    pub(crate) fn values_mut(&mut self) -> impl Iterator<Item = &mut V> {
        self.slots.iter_mut().filter_map(|c| c.as_mut().map(|kv| &mut kv.1))
    }
    pub(crate) fn retain(&mut self, mut f: impl FnMut(&K, &mut V) -> bool) {
        for c in self.slots.iter_mut() {
            let keep = match c {
                Some((k, v)) => f(k, v),
                None => true,
            };
            if !keep {
                *c = None;
            }
        }
    }
    pub(crate) fn entry(&mut self, key: K) -> MapEntry<'_, K, V> {
        MapEntry { map: self, key }
    }
}
impl<'a, K: Eq, V> MapEntry<'a, K, V> {
    pub(crate) fn and_modify(self, f: impl FnOnce(&mut V)) -> Self {
        let mut f = Some(f);
        for c in self.map.slots.iter_mut() {
            if let Some((k, v)) = c {
                if *k == self.key {
                    if let Some(f) = f.take() {
                        f(v);
                    }
                }
            }
        }
        self
    }
    /// (the caller discards the returned reference, so none is produced)
    pub(crate) fn or_insert_with_key(self, f: impl FnOnce(&K) -> V) {
        if self.map.contains_key(&self.key) {
            return;
        }
        let v = f(&self.key);
        let mut cell = Some((self.key, v));
        for c in self.map.slots.iter_mut() {
            if c.is_none() && cell.is_some() {
                *c = cell.take();
            }
        }
        if cell.is_some() {
            panic!("verif shim capacity exceeded");
        }
    }
}

// ---------------------------------------------------------------------------
// Stand-ins (DESIGN §2.4 style; listed in trusted_base).  Measured reason: with the
// real `StreamProtocol` (Either<&'static str, Arc<str>>) in a real heap `Vec`, even
// a fully concrete `from_full_sets` call did not finish in 300 s (validity of a name
// is read back from a heap String, so every later Vec length/slot is symbolic and
// every name comparison is a memcmp through an Arc fat pointer read from the heap).

/// Stand-in for `smallvec::SmallVec<[T; 2]>` (the return type of `from_full_sets`):
/// a finite sequence of at most two elements held in two cells; a third push is
/// UNDECIDED.  Measured reason: the real `push` carries a spill-to-heap path
/// (realloc + memcpy of a symbolic length) that CBMC cannot discard once the length
/// is symbolic (two conditional pushes): no answer in 300 s.
pub(crate) trait SvArray {
    type Item;
}
impl<T> SvArray for [T; 2] {
    type Item = T;
}
pub(crate) struct SmallVec<A: SvArray> {
    cells: [Option<A::Item>; 2],
}
impl<A: SvArray> SmallVec<A> {
    pub(crate) fn new() -> Self {
        SmallVec { cells: [None, None] }
    }
    pub(crate) fn push(&mut self, x: A::Item) {
        if self.cells[0].is_none() {
            self.cells[0] = Some(x);
        } else if self.cells[1].is_none() {
            self.cells[1] = Some(x);
        } else {
            panic!("verif shim capacity exceeded");
        }
    }
    pub(crate) fn len(&self) -> usize {
        self.cells[0].is_some() as usize + self.cells[1].is_some() as usize
    }
    pub(crate) fn is_empty(&self) -> bool {
        self.cells[0].is_none()
    }
    /// elements in push order
    pub(crate) fn into_pair(self) -> (Option<A::Item>, Option<A::Item>) {
        let [a, b] = self.cells;
        (a, b)
    }
}

/// Stand-in for `crate::StreamProtocol`.  ASSUMED CONTRACT (checked against the real
/// type by `plain` harness `stream_protocol_contract`, same alphabet): a name is a
/// valid protocol iff it starts with '/', `as_ref()` gives the name back, equality is
/// equality of names.  Holds names of exactly two bytes inline (the harness alphabets).
#[derive(Clone, Copy, Default)]
pub(crate) struct StreamProtocol {
    b: [u8; 2],
}
impl PartialEq for StreamProtocol {
    fn eq(&self, o: &Self) -> bool {
        self.b[0] == o.b[0] && self.b[1] == o.b[1] // element-wise: no memcmp
    }
}
impl Eq for StreamProtocol {}
pub(crate) struct InvalidProtocol;
impl StreamProtocol {
    pub(crate) fn new(s: &'static str) -> Self {
        let b = s.as_bytes();
        assert!(b.len() == 2 && b[0] == b'/');
        StreamProtocol { b: [b[0], b[1]] }
    }
    pub(crate) fn try_from_owned(protocol: OwnedName) -> Result<Self, InvalidProtocol> {
        if protocol.0[0] != b'/' {
            Err(InvalidProtocol)
        } else {
            Ok(StreamProtocol { b: protocol.0 })
        }
    }
}
/// Stand-in for the `String` made by `.as_ref().to_owned()` (declared rewrite
/// `.as_ref().to_owned()` -> `.as_ref().verif_to_owned()`): the same bytes, held inline.
pub(crate) struct OwnedName([u8; 2]);
pub(crate) trait VerifToOwned {
    fn verif_to_owned(&self) -> OwnedName;
}
impl VerifToOwned for str {
    fn verif_to_owned(&self) -> OwnedName {
        let b = self.as_bytes();
        if b.len() != 2 {
            panic!("verif shim capacity exceeded"); // name outside the stand-in's alphabet
        }
        OwnedName([b[0], b[1]])
    }
}
impl AsRef<str> for StreamProtocol {
    fn as_ref(&self) -> &str {
        // both bytes are ASCII by construction
        unsafe { std::str::from_utf8_unchecked(&self.b) }
    }
}

/// Stand-in for `Vec<StreamProtocol>` (the reusable `protocol_buffer`): a finite
/// sequence with inline storage for VCAP elements; exceeding it is reported as
/// UNDECIDED, never as a violation.  Derefs to a real slice, so `iter`, `split_at`,
/// `is_empty`, `len` are the real slice methods and `slice::Iter` is the real iterator.
pub(crate) const VCAP: usize = 6;
pub(crate) struct Vec<T> {
    items: [T; VCAP],
    len: usize,
}
impl<T: Copy + Default> Vec<T> {
    pub(crate) fn new() -> Self {
        Vec { items: [T::default(); VCAP], len: 0 }
    }
    pub(crate) fn clear(&mut self) {
        self.len = 0;
    }
    pub(crate) fn push(&mut self, x: T) {
        if self.len >= VCAP {
            panic!("verif shim capacity exceeded");
        }
        self.items[self.len] = x;
        self.len += 1;
    }
    pub(crate) fn extend<I: IntoIterator<Item = T>>(&mut self, it: I) {
        for x in it {
            self.push(x);
        }
    }
    pub(crate) fn drain(&mut self, _all: std::ops::RangeFull) -> VecDrain<T> {
        let d = VecDrain { items: self.items, len: self.len, next: 0 };
        self.len = 0;
        d
    }
}
impl<T> std::ops::Deref for Vec<T> {
    type Target = [T];
    fn deref(&self) -> &[T] {
        &self.items[..self.len]
    }
}
pub(crate) struct VecDrain<T> {
    items: [T; VCAP],
    len: usize,
    next: usize,
}
impl<T: Copy> Iterator for VecDrain<T> {
    type Item = T;
    fn next(&mut self) -> Option<T> {
        if self.next < self.len {
            self.next += 1;
            Some(self.items[self.next - 1])
        } else {
            None
        }
    }
}

/// Stand-in for the two variants of `handler::ConnectionEvent` the extracted arms
/// construct (the real enum is generic over the handler's upgrade types and carries
/// the *real* ProtocolsChange, not the copy compiled against the shims).
pub(crate) enum ConnectionEvent<'a> {
    LocalProtocolsChange(ProtocolsChange<'a>),
    RemoteProtocolsChange(ProtocolsChange<'a>),
}

include!(concat!(env!("LIBP2P_VERIF_GEN"), "/C11/fragments.rs"));

// ---------------------------------------------------------------------------
// the observer of the statement: a handler that folds the events it receives

/// bit of a name in the harness alphabets; 0x80 = a name outside the alphabet
fn bit_of(s: &str) -> u8 {
    let b = s.as_bytes();
    if b.len() != 2 {
        return 0x80;
    }
    bits(b[0], b[1])
}
fn bits(b0: u8, b1: u8) -> u8 {
    match (b0, b1) {
        (b'/', b'a') => 1,
        (b'/', b'b') => 2,
        (b'/', b'c') => 4,
        (b'/', b'd') => 8,
        (b'x', b'x') => 0x10,
        _ => 0x80,
    }
}

#[derive(Default)]
pub(crate) struct Probe {
    local: u8,
    remote: u8,
    events: u8,
}

fn fold(m: &mut u8, c: ProtocolsChange<'_>) {
    match c {
        ProtocolsChange::Added(a) => {
            for p in a.protocols {
                *m |= bit_of(p.as_ref());
            }
        }
        ProtocolsChange::Removed(r) => {
            for p in r.protocols {
                *m &= !bit_of(p.as_ref());
            }
        }
    }
}

impl Probe {
    pub(crate) fn on_connection_event(&mut self, ev: ConnectionEvent<'_>) {
        self.events += 1;
        match ev {
            ConnectionEvent::LocalProtocolsChange(c) => fold(&mut self.local, c),
            ConnectionEvent::RemoteProtocolsChange(c) => fold(&mut self.remote, c),
        }
    }
}

/// state of Connection the remote arms touch
pub(crate) struct RemoteEnv {
    pub(crate) remote_supported_protocols: HashSet<StreamProtocol>,
    pub(crate) protocol_buffer: Vec<StreamProtocol>,
}

// ---------------------------------------------------------------------------
// LOCAL

/// advertised names: three valid ones and one that is not a StreamProtocol
/// The advertised-name type T of `from_full_sets<T: AsRef<str>>` (in production the
/// handler's `UpgradeInfoSend::Info`): a two-byte ASCII name held inline, so that
/// comparing two keys does not go through pointers to several string objects.
#[derive(Clone, Copy)]
pub(crate) struct Name([u8; 2]);
impl AsRef<str> for Name {
    fn as_ref(&self) -> &str {
        unsafe { std::str::from_utf8_unchecked(&self.0) }
    }
}
const LOCAL_NAMES: [Name; 4] = [Name(*b"/a"), Name(*b"/b"), Name(*b"/c"), Name(*b"xx")];
const LOCAL_BITS: [u8; 4] = [1, 2, 4, 0x10];
const VALID: u8 = 0b0111;

fn any_name() -> (Name, u8) {
    let i: usize = kani::any();
    kani::assume(i < 4);
    match i {
        0 => (LOCAL_NAMES[0], LOCAL_BITS[0]),
        1 => (LOCAL_NAMES[1], LOCAL_BITS[1]),
        2 => (LOCAL_NAMES[2], LOCAL_BITS[2]),
        _ => (LOCAL_NAMES[3], LOCAL_BITS[3]),
    }
}

/// ANY tracking map over the alphabet: every subset of the four names, flags arbitrary
fn any_existing() -> (HashMap<AsStrHashEq<Name>, bool>, u8) {
    // cell i holds name i or nothing (cells are placed directly: any occupancy pattern)
    let mut m: HashMap<AsStrHashEq<Name>, bool> = HashMap::new();
    let mut keys = 0u8;
    if kani::any() {
        m.slots[0] = Some((AsStrHashEq(LOCAL_NAMES[0]), kani::any()));
        keys |= LOCAL_BITS[0];
    }
    if kani::any() {
        m.slots[1] = Some((AsStrHashEq(LOCAL_NAMES[1]), kani::any()));
        keys |= LOCAL_BITS[1];
    }
    if kani::any() {
        m.slots[2] = Some((AsStrHashEq(LOCAL_NAMES[2]), kani::any()));
        keys |= LOCAL_BITS[2];
    }
    if kani::any() {
        m.slots[3] = Some((AsStrHashEq(LOCAL_NAMES[3]), kani::any()));
        keys |= LOCAL_BITS[3];
    }
    (m, keys)
}

fn keys_of(m: &HashMap<AsStrHashEq<Name>, bool>) -> u8 {
    let mut k = 0u8;
    let mut i = 0;
    while i < 4 {
        if m.contains_key(&AsStrHashEq(LOCAL_NAMES[i])) {
            k |= LOCAL_BITS[i];
        }
        i += 1;
    }
    k
}

/// an advertised list of exactly N entries over the alphabet (duplicates and the
/// invalid name allowed); returns (list, set of names in it)
fn any_list<const N: usize>() -> ([Name; N], u8) {
    let mut l = [LOCAL_NAMES[0]; N];
    let mut set = 0u8;
    let mut i = 0;
    while i < N {
        let (s, b) = any_name();
        l[i] = s;
        set |= b;
        i += 1;
    }
    (l, set)
}

/// One `from_full_sets` step from any state within the bound, advertised list of
/// exactly N entries.  Returns what the statement talks about.
struct LocalStep {
    folded: u8,     // handler's fold after the step
    advertised: u8, // set of names in the advertised list (incl. the invalid one)
    keys_after: u8, // keys of the tracking map after the step
    events: usize,
    old_keys: u8,
}

fn local_step<const N: usize>() -> LocalStep {
    let (mut existing, old_keys) = any_existing();
    let (list, advertised) = any_list::<N>();
    // inv_local: the handler's fold so far == valid names tracked
    let mut probe = Probe { local: old_keys & VALID, remote: 0, events: 0 };
    let mut buffer: Vec<StreamProtocol> = Vec::new();
    let changes = ProtocolsChange::from_full_sets(&mut existing, list, &mut buffer);
    let events = changes.len();
    // Connection::poll: `for change in changes { handler.on_connection_event(LocalProtocolsChange(change)) }`
    let (first, second) = changes.into_pair();
    if let Some(change) = first {
        probe.on_connection_event(ConnectionEvent::LocalProtocolsChange(change));
    }
    if let Some(change) = second {
        probe.on_connection_event(ConnectionEvent::LocalProtocolsChange(change));
    }
    let keys_after = keys_of(&existing);
    let r = LocalStep { folded: probe.local, advertised, keys_after, events, old_keys };
    std::mem::forget(existing);
    r
}

fn check_local_fold<const N: usize>() {
    let s = local_step::<N>();
    kani::assert(
        s.folded == s.advertised & VALID,
        "C11: folded LocalProtocolsChange events == valid names advertised now",
    );
}

fn check_local_keys<const N: usize>() {
    let s = local_step::<N>();
    kani::assert(
        s.keys_after == s.advertised,
        "C11: tracking map keys == names advertised now (inductive invariant)",
    );
}

#[kani::proof]
#[kani::unwind(5)]
fn local_fold_tracks_advertised_set_n0() {
    check_local_fold::<0>()
}
#[kani::proof]
#[kani::unwind(5)]
fn local_fold_tracks_advertised_set_n1() {
    check_local_fold::<1>()
}
#[kani::proof]
#[kani::unwind(5)]
fn local_fold_tracks_advertised_set_n2() {
    check_local_fold::<2>()
}
#[kani::proof]
#[kani::unwind(5)]
fn local_fold_tracks_advertised_set_n3() {
    check_local_fold::<3>()
}
#[kani::proof]
#[kani::unwind(5)]
fn local_keys_equal_advertised_names_n2() {
    check_local_keys::<2>()
}
#[kani::proof]
#[kani::unwind(5)]
fn local_keys_equal_advertised_names_n3() {
    check_local_keys::<3>()
}

/// Connection::new: the first event a handler sees
#[kani::proof]
#[kani::unwind(5)]
fn local_initial_protocols_reports_valid_names() {
    let (list, advertised) = any_list::<3>();
    let mut buffer: Vec<StreamProtocol> = Vec::new();
    let mut probe = Probe::default();
    let c = ProtocolsChange::from_initial_protocols(list.iter(), &mut buffer);
    kani::assert(matches!(c, ProtocolsChange::Added(_)), "C11: the initial change is an Added event");
    probe.on_connection_event(ConnectionEvent::LocalProtocolsChange(c));
    kani::assert(
        probe.local == advertised & VALID,
        "C11: initial LocalProtocolsChange carries exactly the valid advertised names",
    );
}

/// canary: "the fold never changes" must FAIL (vacuity guard)
#[kani::proof]
#[kani::unwind(5)]
fn canary_local_fold_never_changes() {
    let s = local_step::<2>();
    assert!(s.folded == s.old_keys & VALID);
}

// ---------------------------------------------------------------------------
// REMOTE

const REMOTE_NAMES: [&str; 4] = ["/a", "/b", "/c", "/d"];

fn any_proto_set() -> (HashSet<StreamProtocol>, u8) {
    let mut s: HashSet<StreamProtocol> = HashSet::new();
    let mut mask = 0u8;
    if kani::any() {
        s.slots[0] = Some(StreamProtocol::new(REMOTE_NAMES[0]));
        mask |= 1;
    }
    if kani::any() {
        s.slots[1] = Some(StreamProtocol::new(REMOTE_NAMES[1]));
        mask |= 2;
    }
    if kani::any() {
        s.slots[2] = Some(StreamProtocol::new(REMOTE_NAMES[2]));
        mask |= 4;
    }
    if kani::any() {
        s.slots[3] = Some(StreamProtocol::new(REMOTE_NAMES[3]));
        mask |= 8;
    }
    (s, mask)
}

fn set_mask(s: &HashSet<StreamProtocol>) -> u8 {
    let mut mask = 0u8;
    let mut i = 0;
    while i < 4 {
        if s.contains(&StreamProtocol::new(REMOTE_NAMES[i])) {
            mask |= 1 << i;
        }
        i += 1;
    }
    mask
}

/// The reusable `protocol_buffer` is scratch state: `remove` and `from_full_sets` leave their
/// output in it, so the next report starts from ANY content (here: empty or one stale name).
fn any_stale_buffer() -> Vec<StreamProtocol> {
    let mut b: Vec<StreamProtocol> = Vec::new();
    let k: u8 = kani::any();
    match k {
        0 => b.push(StreamProtocol::new(REMOTE_NAMES[0])),
        1 => b.push(StreamProtocol::new(REMOTE_NAMES[1])),
        2 => b.push(StreamProtocol::new(REMOTE_NAMES[2])),
        3 => b.push(StreamProtocol::new(REMOTE_NAMES[3])),
        _ => {}
    }
    b
}

#[kani::proof]
#[kani::unwind(8)]
fn remote_added_report_is_folded() {
    let (r, r_mask) = any_proto_set();
    let (to_add, add_mask) = any_proto_set();
    let mut env = RemoteEnv { remote_supported_protocols: r, protocol_buffer: any_stale_buffer() };
    let mut probe = Probe { local: 0, remote: r_mask, events: 0 }; // inv_remote
    env.report_added(&mut probe, to_add);
    kani::assert(
        probe.remote == r_mask | add_mask,
        "C11: folded RemoteProtocolsChange == reported so far, after an Added report",
    );
    kani::assert(
        set_mask(&env.remote_supported_protocols) == probe.remote,
        "C11: Connection's remote set == handler's fold after an Added report (inductive invariant)",
    );
    kani::assert(
        (probe.events == 0) == (add_mask & !r_mask == 0),
        "C11: an Added report that adds nothing new delivers no event, any other exactly one",
    );
    std::mem::forget(env);
}

#[kani::proof]
#[kani::unwind(8)]
fn remote_removed_report_is_folded() {
    let (r, r_mask) = any_proto_set();
    let (to_remove, rm_mask) = any_proto_set();
    let mut env = RemoteEnv { remote_supported_protocols: r, protocol_buffer: any_stale_buffer() };
    let mut probe = Probe { local: 0, remote: r_mask, events: 0 }; // inv_remote
    env.report_removed(&mut probe, to_remove);
    kani::assert(
        probe.remote == r_mask & !rm_mask,
        "C11: folded RemoteProtocolsChange == added minus removed, after a Removed report",
    );
    kani::assert(
        set_mask(&env.remote_supported_protocols) == probe.remote,
        "C11: Connection's remote set == handler's fold after a Removed report (inductive invariant)",
    );
    std::mem::forget(env);
}

/// canary: "a Removed report never changes the fold" must FAIL
#[kani::proof]
#[kani::unwind(8)]
fn canary_remote_removed_changes_nothing() {
    let (r, r_mask) = any_proto_set();
    let (to_remove, _rm_mask) = any_proto_set();
    let mut env = RemoteEnv { remote_supported_protocols: r, protocol_buffer: Vec::new() };
    let mut probe = Probe { local: 0, remote: r_mask, events: 0 };
    env.report_removed(&mut probe, to_remove);
    assert!(probe.remote == r_mask);
    std::mem::forget(env);
}

