// C11 — the contract the StreamProtocol stand-in of protocols.rs assumes, checked on
// the REAL crate::StreamProtocol for every two-byte ASCII name: valid iff the name
// starts with '/', `as_ref()` returns the name, equality is equality of names.
#[kani::proof]
#[kani::unwind(4)]
fn stream_protocol_contract() {
    let a: [u8; 2] = [kani::any(), kani::any()];
    let b: [u8; 2] = [kani::any(), kani::any()];
    kani::assume(a[0] < 128 && a[1] < 128 && b[0] < 128 && b[1] < 128);
    let sa = unsafe { String::from_utf8_unchecked(vec![a[0], a[1]]) };
    let sb = unsafe { String::from_utf8_unchecked(vec![b[0], b[1]]) };
    let pa = StreamProtocol::try_from_owned(sa);
    let pb = StreamProtocol::try_from_owned(sb);
    assert!(pa.is_ok() == (a[0] == b'/'));
    assert!(pb.is_ok() == (b[0] == b'/'));
    if let (Ok(pa), Ok(pb)) = (pa, pb) {
        let ra: &str = pa.as_ref();
        let ra = ra.as_bytes();
        assert!(ra.len() == 2 && ra[0] == a[0] && ra[1] == a[1]);
        assert!((pa == pb) == (a[0] == b[0] && a[1] == b[1]));
        std::mem::forget((pa, pb));
    }
}
