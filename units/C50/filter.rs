// C50 — AutoNAT v1 dial-back address filter (real Multiaddr; the local
// `distinct` HashSet is the dependency shim).  Contract from the statement:
// every returned address (a) has ALL its IP components equal to the observed IP,
// (b) contains no relay hop, (c) ends with /p2p/<requester>, (d) is distinct;
// an observed address without IP yields nothing.
use std::net::{Ipv4Addr, Ipv6Addr};

fn peer(b: u8) -> PeerId {
    PeerId::from_multihash(libp2p_core::multihash::Multihash::<64>::wrap(0, &[b]).unwrap()).unwrap()
}

fn ip4(x: u32) -> Protocol<'static> {
    Protocol::Ip4(Ipv4Addr::from(x))
}

fn addr(parts: &[Protocol<'static>]) -> Multiaddr {
    let mut a = Multiaddr::empty();
    for p in parts {
        a = a.with(p.clone());
    }
    a
}

fn check_output(out: &[Multiaddr], requester: PeerId, observed: &Protocol<'static>) {
    for a in out.iter() {
        let mut last = None;
        for p in a.iter() {
            match &p {
                Protocol::Ip4(_) | Protocol::Ip6(_) => assert!(&p == observed),
                Protocol::P2pCircuit => assert!(false),
                _ => {}
            }
            last = Some(p);
        }
        assert!(last == Some(Protocol::P2p(requester)));
    }
    if out.len() == 2 {
        assert!(out[0] != out[1]);
    }
}

/// single demanded address /ip4/D/tcp/p: the demanded IP is replaced by the observed one
#[kani::proof]
#[kani::unwind(24)]
fn filter_replaces_ip_and_appends_peer() {
    let me = peer(kani::any());
    let (d, o): (u32, u32) = (kani::any(), kani::any());
    let port: u16 = kani::any();
    let out = AsServer::filter_valid_addrs(me, vec![addr(&[ip4(d), Protocol::Tcp(port)])], &addr(&[ip4(o), Protocol::Tcp(1)]));
    assert!(out.len() == 1);
    check_output(&out, me, &ip4(o));
    assert!(out[0] == addr(&[ip4(o), Protocol::Tcp(port), Protocol::P2p(me)]));
}

/// a demanded address with a SECOND IP component (which e.g. the TCP transport
/// would dial, since it reads the last ip/tcp pair) must never come out carrying
/// a foreign IP
#[kani::proof]
#[kani::unwind(24)]
fn filter_second_ip_component_cannot_smuggle_a_target() {
    let me = peer(1);
    let (d, victim, o): (u32, u32, u32) = (kani::any(), kani::any(), kani::any());
    let demanded = addr(&[ip4(d), Protocol::Tcp(kani::any()), ip4(victim), Protocol::Tcp(kani::any())]);
    let out = AsServer::filter_valid_addrs(me, vec![demanded], &addr(&[ip4(o), Protocol::Tcp(1)]));
    kani::cover!(out.len() == 1);
    check_output(&out, me, &ip4(o));
}

/// relay hops and foreign /p2p components are refused; the requester's own /p2p is kept
#[kani::proof]
#[kani::unwind(24)]
fn filter_relay_and_foreign_peer_refused() {
    let me = peer(1);
    let other = peer(kani::any());
    let o: u32 = kani::any();
    let observed = addr(&[ip4(o), Protocol::Tcp(1)]);
    let relay = addr(&[ip4(kani::any()), Protocol::Tcp(2), Protocol::P2p(other), Protocol::P2pCircuit]);
    let out = AsServer::filter_valid_addrs(me, vec![relay], &observed);
    assert!(out.is_empty());
    let foreign = addr(&[ip4(kani::any()), Protocol::Tcp(2), Protocol::P2p(other)]);
    let out = AsServer::filter_valid_addrs(me, vec![foreign], &observed);
    if other != me {
        assert!(out.is_empty());
    } else {
        assert!(out.len() == 1);
        check_output(&out, me, &ip4(o));
    }
}

/// /p2p/<requester> in the middle of an address: whatever is returned must still
/// END with the requester's peer id
#[kani::proof]
#[kani::unwind(24)]
fn filter_inner_peer_id_still_ends_with_peer() {
    let me = peer(1);
    let o: u32 = kani::any();
    let demanded = addr(&[ip4(kani::any()), Protocol::P2p(me), Protocol::Tcp(kani::any())]);
    let out = AsServer::filter_valid_addrs(me, vec![demanded], &addr(&[ip4(o), Protocol::Tcp(1)]));
    check_output(&out, me, &ip4(o));
}

/// duplicates collapse; addresses without an IP component (DNS-less here: bare
/// tcp) and an observed address without IP yield nothing
#[kani::proof]
#[kani::unwind(24)]
fn filter_distinct_and_no_ip_cases() {
    let me = peer(1);
    let o: u32 = kani::any();
    let observed = addr(&[ip4(o), Protocol::Tcp(1)]);
    let (d1, d2): (u32, u32) = (kani::any(), kani::any());
    let port: u16 = kani::any();
    // two demanded addresses that differ only in the (replaced) IP are one address afterwards
    let out = AsServer::filter_valid_addrs(
        me,
        vec![addr(&[ip4(d1), Protocol::Tcp(port)]), addr(&[ip4(d2), Protocol::Tcp(port)])],
        &observed,
    );
    assert!(out.len() == 1);
    check_output(&out, me, &ip4(o));
    let out = AsServer::filter_valid_addrs(me, vec![addr(&[Protocol::Tcp(port)])], &observed);
    assert!(out.is_empty());
    let out = AsServer::filter_valid_addrs(me, vec![addr(&[ip4(d1), Protocol::Tcp(port)])], &addr(&[Protocol::Tcp(1)]));
    assert!(out.is_empty());
}

/// IPv6 observed address replaces an IPv4 demanded one
#[kani::proof]
#[kani::unwind(24)]
fn filter_ip6_observed() {
    let me = peer(1);
    let o: u128 = kani::any();
    let obs = Protocol::Ip6(Ipv6Addr::from(o));
    let out = AsServer::filter_valid_addrs(me, vec![addr(&[ip4(kani::any()), Protocol::Tcp(kani::any())])], &addr(&[obs.clone(), Protocol::Tcp(1)]));
    assert!(out.len() == 1);
    check_output(&out, me, &obs);
}

/// Vacuity canary: must FAIL.
#[kani::proof]
#[kani::unwind(24)]
fn canary_filter_returns_nothing() {
    let me = peer(1);
    let out = AsServer::filter_valid_addrs(me, vec![addr(&[ip4(1), Protocol::Tcp(1)])], &addr(&[ip4(2), Protocol::Tcp(1)]));
    assert!(out.is_empty());
}
