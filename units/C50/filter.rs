// C50 — AutoNAT v1 dial-back address filter `AsServer::filter_valid_addrs`.
//
// Contract, from the property statement: every address the server is left with
// (and will therefore dial)
//   (a) has ALL its IP components equal to the IP observed for the requester,
//   (b) contains no relay hop (/p2p-circuit),
//   (c) ENDS with /p2p/<requester>,
//   (d) is distinct from the other returned addresses;
// an observed address without an IP component yields nothing.
//
// Group "seq": the text of `filter_valid_addrs` is extracted verbatim on every run
// (units/C50/unit.json `fragments`) and compiled against the stand-ins of
// units/C50/model.rs for `Multiaddr` / `Protocol` / `PeerId` and the dependency shim
// for the function-local `HashSet`.  Inputs: ANY list of <= 2 demanded addresses of
// <= 4 components each, every component any of Ip4(any u32) / Ip6(any u128) /
// P2p(any of 256 peers) / P2pCircuit / Other(any kind, any payload), any requester,
// and any observed address of <= 2 components with at most one IP component.
//
// Group "real" (thorough tier): the real function on the real `Multiaddr` for the
// two defect witnesses with symbolic IPs (M-route cross-check; measured > 600 s).

pub(crate) mod seq {
    #[allow(unused_imports)]
    use super::*;
    pub(crate) mod model {
        include!(concat!(env!("LIBP2P_VERIF"), "/units/C50/model.rs"));
    }
    use self::model::{Multiaddr, PeerId, Protocol};

    pub(crate) struct SeqServer;
    // impl SeqServer { <verbatim text of AsServer::filter_valid_addrs> }
    include!(concat!(env!("LIBP2P_VERIF_GEN"), "/C50/filter_fn.rs"));

    fn any_component() -> Protocol {
        let k: u8 = kani::any();
        match k {
            0 => Protocol::Ip4(kani::any()),
            1 => Protocol::Ip6(kani::any()),
            2 => Protocol::P2p(PeerId(kani::any())),
            3 => Protocol::P2pCircuit,
            _ => Protocol::Other(kani::any(), kani::any()),
        }
    }

    fn any_addr(max: usize) -> Multiaddr {
        let n: usize = kani::any();
        kani::assume(n <= max);
        let mut a = Multiaddr::empty();
        let mut i = 0;
        while i < max {
            if i < n {
                a.push(any_component());
            }
            i += 1;
        }
        a
    }

    fn is_ip(p: &Protocol) -> bool {
        matches!(p, Protocol::Ip4(_) | Protocol::Ip6(_))
    }
    fn count_ip(a: &Multiaddr) -> usize {
        a.iter().filter(|p| is_ip(p)).count()
    }
    /// P2p components occur, if at all, only in last position
    fn p2p_only_last(a: &Multiaddr) -> bool {
        let n = a.len();
        a.iter().enumerate().all(|(i, p)| !matches!(p, Protocol::P2p(_)) || i + 1 == n)
    }

    struct Request {
        requester: PeerId,
        demanded: Vec<Multiaddr>,
        observed: Multiaddr,
        observed_ip: Option<Protocol>,
    }

    fn any_observed() -> (Multiaddr, Option<Protocol>) {
        let observed = any_addr(2);
        // the address a connection was observed at names one host
        kani::assume(count_ip(&observed) <= 1);
        let observed_ip = observed.iter().find(|p| is_ip(p));
        (observed, observed_ip)
    }

    /// a request demanding ONE address of <= 4 components (the per-address clauses)
    fn any_request() -> Request {
        let (observed, observed_ip) = any_observed();
        Request { requester: PeerId(kani::any()), demanded: vec![any_addr(4)], observed, observed_ip }
    }

    /// a request demanding TWO addresses of <= 3 components each (the cross-address clauses)
    fn any_request_of_two() -> Request {
        let (observed, observed_ip) = any_observed();
        Request { requester: PeerId(kani::any()), demanded: vec![any_addr(3), any_addr(3)], observed, observed_ip }
    }

    fn all_ips_are(a: &Multiaddr, ip: &Protocol) -> bool {
        a.iter().all(|p| !is_ip(&p) || &p == ip)
    }

    /// (a) every IP component of every returned address is the observed IP
    #[kani::proof]
    #[kani::unwind(7)]
    fn every_ip_component_is_the_observed_ip() {
        let r = any_request();
        let out = SeqServer::filter_valid_addrs(r.requester, r.demanded, &r.observed);
        kani::cover!(out.len() == 1);
        if let Some(ip) = r.observed_ip {
            for a in out.iter() {
                assert!(all_ips_are(a, &ip), "C50(a): a returned address carries an IP component other than the observed IP");
            }
        }
    }

    /// (a) restricted to demanded addresses with at most one IP component (the class
    /// the crate's own test covers): keeps the check sensitive to any other way of
    /// letting a foreign IP through
    #[kani::proof]
    #[kani::unwind(7)]
    fn single_ip_demands_carry_only_the_observed_ip() {
        let r = any_request();
        kani::assume(r.demanded.iter().all(|a| count_ip(a) <= 1));
        let out = SeqServer::filter_valid_addrs(r.requester, r.demanded, &r.observed);
        kani::cover!(out.len() == 1);
        if let Some(ip) = r.observed_ip {
            for a in out.iter() {
                assert!(all_ips_are(a, &ip), "a returned address carries an IP component other than the observed IP");
                assert!(count_ip(a) == 1);
            }
        }
    }

    /// (b) no returned address contains a relay hop, nor a /p2p component naming somebody else
    #[kani::proof]
    #[kani::unwind(7)]
    fn no_relay_hop_is_dialed() {
        let r = any_request();
        let me = r.requester;
        let out = SeqServer::filter_valid_addrs(r.requester, r.demanded, &r.observed);
        kani::cover!(out.len() == 1);
        for a in out.iter() {
            assert!(a.iter().all(|p| p != Protocol::P2pCircuit), "a returned address contains /p2p-circuit");
            assert!(a.iter().all(|p| !matches!(p, Protocol::P2p(q) if q != me)), "a returned address names a foreign peer");
        }
    }

    /// (c) every returned address ENDS with /p2p/<requester>
    #[kani::proof]
    #[kani::unwind(7)]
    fn every_address_ends_with_the_requester() {
        let r = any_request();
        let me = r.requester;
        let out = SeqServer::filter_valid_addrs(r.requester, r.demanded, &r.observed);
        kani::cover!(out.len() == 1);
        for a in out.iter() {
            assert!(a.iter().last() == Some(Protocol::P2p(me)), "C50(c): a returned address does not END with /p2p/<requester>");
        }
    }

    /// (c) restricted to demanded addresses whose /p2p component, if any, is the last one
    #[kani::proof]
    #[kani::unwind(7)]
    fn trailing_or_absent_p2p_ends_with_the_requester() {
        let r = any_request();
        let me = r.requester;
        kani::assume(r.demanded.iter().all(|a| p2p_only_last(a)));
        let out = SeqServer::filter_valid_addrs(r.requester, r.demanded, &r.observed);
        kani::cover!(out.len() == 1);
        for a in out.iter() {
            assert!(a.iter().last() == Some(Protocol::P2p(me)), "a returned address does not END with /p2p/<requester>");
        }
    }

    /// (d) returned addresses are pairwise distinct; nothing is invented (at most one
    /// result per demanded address); no observed IP => nothing to dial
    #[kani::proof]
    #[kani::unwind(7)]
    fn distinct_and_nothing_without_observed_ip() {
        let r = any_request_of_two();
        let n = r.demanded.len();
        let out = SeqServer::filter_valid_addrs(r.requester, r.demanded, &r.observed);
        kani::cover!(out.len() == 2);
        kani::cover!(out.len() == 1);
        kani::cover!(r.observed_ip.is_none());
        assert!(out.len() <= n);
        if out.len() == 2 {
            assert!(out[0] != out[1], "the same address is returned twice");
        }
        if r.observed_ip.is_none() {
            assert!(out.is_empty(), "addresses returned although no IP was observed for the requester");
        }
    }

    /// Vacuity canary: must FAIL (the filter does let well-formed demands through).
    #[kani::proof]
    #[kani::unwind(7)]
    fn canary_filter_returns_nothing() {
        let r = any_request();
        let out = SeqServer::filter_valid_addrs(r.requester, r.demanded, &r.observed);
        assert!(out.is_empty());
    }
}

// ---------------------------------------------------------------------------
// M-route cross-check on the real function and the real `Multiaddr` (thorough tier)

use std::net::Ipv4Addr;

fn peer(b: u8) -> PeerId {
    PeerId::from_multihash(libp2p_core::multihash::Multihash::<64>::wrap(0, &[b]).unwrap()).unwrap()
}

fn ip4(x: u32) -> Protocol<'static> {
    Protocol::Ip4(Ipv4Addr::from(x))
}

fn check_output(out: &[Multiaddr], requester: PeerId, observed: &Protocol<'static>) {
    for a in out.iter() {
        let mut last = None;
        for p in a.iter() {
            match &p {
                Protocol::Ip4(_) | Protocol::Ip6(_) => assert!(&p == observed),
                Protocol::P2pCircuit => assert!(false),
                _ => {}
            }
            last = Some(p);
        }
        assert!(last == Some(Protocol::P2p(requester)));
    }
}

/// /ip4/D/tcp/1/ip4/V/tcp/2 demanded: no returned address carries an IP other than the observed one
#[kani::proof]
#[kani::unwind(24)]
fn real_second_ip_component_cannot_smuggle_a_target() {
    let me = peer(1);
    let (d, victim, o): (u32, u32, u32) = (kani::any(), kani::any(), kani::any());
    let demanded = Multiaddr::empty().with(ip4(d)).with(Protocol::Tcp(1)).with(ip4(victim)).with(Protocol::Tcp(2));
    let out = AsServer::filter_valid_addrs(me, vec![demanded], &Multiaddr::empty().with(ip4(o)));
    check_output(&out, me, &ip4(o));
}

/// /ip4/D/p2p/<requester>/tcp/1 demanded: whatever is returned ends with /p2p/<requester>
#[kani::proof]
#[kani::unwind(24)]
fn real_inner_peer_id_still_ends_with_peer() {
    let me = peer(1);
    let o: u32 = kani::any();
    let demanded = Multiaddr::empty().with(ip4(kani::any())).with(Protocol::P2p(me)).with(Protocol::Tcp(1));
    let out = AsServer::filter_valid_addrs(me, vec![demanded], &Multiaddr::empty().with(ip4(o)));
    check_output(&out, me, &ip4(o));
}
