// C38 — closest-bucket enumeration.  Canonical order of bucket indices for a
// target at distance d from the local key (i0 = highest set bit of d):
//   phase A: i0                                   (the bucket covering the target)
//   phase B: set bits of d below i0, descending   ("zoom in")
//   phase C: clear bits of d, ascending from 0    ("zoom out"; includes all bits above i0)
// For d = 0 there is no phase A/B and phase C runs 0..=255.
// Every index in 0..256 is in exactly one phase, phase B is strictly descending
// and phase C strictly ascending, so "each step returns the canonical successor"
// (proved below, one step from ANY state) implies every bucket is yielded exactly
// once, then None forever.

fn bit(w: &[u64; 4], i: usize) -> bool {
    (w[i / 64] >> (i % 64)) & 1 == 1
}

/// mask of the bits of word `k` whose global index lies in [lo, hi)
fn word_mask(k: usize, lo: usize, hi: usize) -> u64 {
    let base = 64 * k;
    let l = if lo > base { lo - base } else { 0 };
    let h = if hi > base { hi - base } else { 0 };
    let l = if l > 64 { 64 } else { l };
    let h = if h > 64 { 64 } else { h };
    if h <= l {
        return 0;
    }
    let width = h - l;
    let ones: u64 = if width == 64 { u64::MAX } else { (1u64 << width) - 1 };
    ones << l
}

/// some bit with index in [lo, hi) is set  (loop-free: four word masks)
fn any_set(w: &[u64; 4], lo: usize, hi: usize) -> bool {
    (w[0] & word_mask(0, lo, hi)) != 0
        || (w[1] & word_mask(1, lo, hi)) != 0
        || (w[2] & word_mask(2, lo, hi)) != 0
        || (w[3] & word_mask(3, lo, hi)) != 0
}

fn any_clear(w: &[u64; 4], lo: usize, hi: usize) -> bool {
    any_set(&[!w[0], !w[1], !w[2], !w[3]], lo, hi)
}

/// r is the largest j < i with bit j set (None if there is none)
fn is_next_set_below(w: &[u64; 4], i: usize, r: Option<usize>) -> bool {
    match r {
        Some(j) => j < i && bit(w, j) && !any_set(w, j + 1, i),
        None => !any_set(w, 0, i),
    }
}

/// r is the smallest j >= from (j < 256) with bit j clear (None if there is none)
fn is_next_clear_from(w: &[u64; 4], from: usize, r: Option<usize>) -> bool {
    match r {
        Some(j) => j >= from && j < NUM_BUCKETS && !bit(w, j) && !any_clear(w, from, j),
        None => !any_clear(w, from, NUM_BUCKETS),
    }
}

fn state_code(s: &ClosestBucketsIterState) -> (u8, usize) {
    match s {
        ClosestBucketsIterState::Start(i) => (0, i.get()),
        ClosestBucketsIterState::ZoomIn(i) => (1, i.get()),
        ClosestBucketsIterState::ZoomOut(i) => (2, i.get()),
        ClosestBucketsIterState::Done => (3, 0),
    }
}

fn any_distance() -> ([u64; 4], Distance) {
    let w: [u64; 4] = kani::any();
    (w, Distance(U256(w)))
}

/// new(d): starts at the bucket covering the target (bucket 0 for d = 0).
#[kani::proof]
fn step_new_and_start() {
    let (w, d) = any_distance();
    let mut it = ClosestBucketsIter::new(d);
    let i0 = match BucketIndex::new(&d) {
        Some(i) => i.get(),
        None => 0,
    };
    assert!(state_code(&it.state) == (0, i0));
    let first = it.next();
    assert!(first.map(|b| b.get()) == Some(i0));
    // after the first step the iterator is zooming in from i0
    assert!(state_code(&it.state) == (1, i0));
    let _ = w;
}

/// One zoom-in step from ANY ZoomIn(i) state in which bucket i has just been
/// yielded (bit i of d set, or d = 0 and i = 0): yields the next lower set bit;
/// when there is none, continues with the first *clear* bit from 0 upwards
/// (never an index whose bit is set — those were all yielded while zooming in).
#[kani::proof]
#[kani::unwind(258)]
fn step_zoom_in() {
    let (w, d) = any_distance();
    let i: usize = kani::any();
    kani::assume(i < NUM_BUCKETS);
    let d_zero = w == [0u64; 4];
    kani::assume(if d_zero { i == 0 } else { bit(&w, i) });
    let mut it = ClosestBucketsIter { distance: d, state: ClosestBucketsIterState::ZoomIn(BucketIndex(i)) };
    let r = it.next().map(|b| b.get());
    if any_set(&w, 0, i) {
        assert!(r.is_some() && is_next_set_below(&w, i, r));
        assert!(state_code(&it.state) == (1, r.unwrap()));
    } else {
        // zoom-in exhausted: canonical successor is the first clear bit, skipping
        // bucket 0 if it was already yielded (d = 0 start, or bit 0 set)
        let from = if d_zero { 1 } else { 0 };
        assert!(is_next_clear_from(&w, from, r));
        match r {
            Some(j) => assert!(state_code(&it.state) == (2, j)),
            None => assert!(state_code(&it.state).0 == 3),
        }
    }
}

/// One zoom-out step from ANY ZoomOut(i) state (bit i clear, or d = 0): yields
/// the next higher clear bit, or None and Done.
#[kani::proof]
#[kani::unwind(258)]
fn step_zoom_out() {
    let (w, d) = any_distance();
    let i: usize = kani::any();
    kani::assume(i < NUM_BUCKETS);
    kani::assume(!bit(&w, i));
    let mut it = ClosestBucketsIter { distance: d, state: ClosestBucketsIterState::ZoomOut(BucketIndex(i)) };
    let r = it.next().map(|b| b.get());
    assert!(is_next_clear_from(&w, i + 1, r));
    match r {
        Some(j) => assert!(state_code(&it.state) == (2, j)),
        None => assert!(state_code(&it.state).0 == 3),
    }
}

/// the loop-free mask predicates agree with the obvious bit-by-bit definition
#[kani::proof]
fn spec_masks_are_sound() {
    let w: [u64; 4] = kani::any();
    let lo: usize = kani::any();
    let hi: usize = kani::any();
    kani::assume(lo <= 256 && hi <= 256);
    let j: usize = kani::any();
    kani::assume(j < 256);
    // any bit j in [lo,hi) that is set is seen by any_set; and any_set is witnessed
    if lo <= j && j < hi && bit(&w, j) {
        assert!(any_set(&w, lo, hi));
    }
    if !(lo < hi) {
        assert!(!any_set(&w, lo, hi));
    }
    if lo <= j && j < hi && !any_set(&w, lo, hi) {
        assert!(!bit(&w, j));
    }
}

/// Done is absorbing.
#[kani::proof]
fn step_done() {
    let (_, d) = any_distance();
    let mut it = ClosestBucketsIter { distance: d, state: ClosestBucketsIterState::Done };
    assert!(it.next().is_none());
    assert!(state_code(&it.state).0 == 3);
}

// ---- order lemma ---------------------------------------------------------------
fn le(a: &[u64; 4], b: &[u64; 4]) -> bool {
    if a[3] != b[3] { return a[3] < b[3]; }
    if a[2] != b[2] { return a[2] < b[2]; }
    if a[1] != b[1] { return a[1] < b[1]; }
    a[0] <= b[0]
}

fn xor(a: &[u64; 4], b: &[u64; 4]) -> [u64; 4] {
    [a[0] ^ b[0], a[1] ^ b[1], a[2] ^ b[2], a[3] ^ b[3]]
}

/// canonical position comparison: does bucket i come strictly before bucket j?
fn before(w: &[u64; 4], i0: Option<usize>, i: usize, j: usize) -> bool {
    let phase = |k: usize| -> u8 {
        if Some(k) == i0 { 0 } else if bit(w, k) { 1 } else { 2 }
    };
    let (pi, pj) = (phase(i), phase(j));
    if pi != pj {
        return pi < pj;
    }
    match pi {
        1 => i > j,
        2 => i < j,
        _ => false,
    }
}

/// If bucket i is enumerated before bucket j, every key of bucket i is strictly
/// closer to the target than every key of bucket j (so concatenating per-bucket
/// sorted runs is globally sorted).  x = local^a, y = local^b, D = local^target.
#[kani::proof]
fn lemma_bucket_order_is_distance_order() {
    let (dw, d) = any_distance();
    let (xw, x) = any_distance();
    let (yw, y) = any_distance();
    let i0 = BucketIndex::new(&d).map(|b| b.get());
    let (i, j) = match (BucketIndex::new(&x), BucketIndex::new(&y)) {
        (Some(i), Some(j)) => (i.get(), j.get()),
        _ => return, // the local key itself is never stored
    };
    kani::assume(before(&dw, i0, i, j));
    kani::cover!(true);
    let da = xor(&dw, &xw); // distance target..a
    let db = xor(&dw, &yw);
    assert!(le(&da, &db) && da != db);
}

/// Vacuity canary: must FAIL.
#[kani::proof]
#[kani::unwind(258)]
fn canary_zoom_out_never_ends() {
    let (w, d) = any_distance();
    let i: usize = kani::any();
    kani::assume(i < NUM_BUCKETS);
    kani::assume(!bit(&w, i));
    let mut it = ClosestBucketsIter { distance: d, state: ClosestBucketsIterState::ZoomOut(BucketIndex(i)) };
    assert!(it.next().is_some());
}

/// Probe: zoom-out with the index made concrete per branch (case split inside the harness).
#[kani::proof]
#[kani::unwind(258)]
fn probe_zoom_out_split() {
    let (w, d) = any_distance();
    let i: usize = kani::any();
    kani::assume(i < NUM_BUCKETS);
    kani::assume(!bit(&w, i));
    let mut ci = 0usize;
    while ci < NUM_BUCKETS {
        if i == ci {
            let mut it = ClosestBucketsIter { distance: d, state: ClosestBucketsIterState::ZoomOut(BucketIndex(ci)) };
            let r = it.next().map(|b| b.get());
            assert!(is_next_clear_from(&w, ci + 1, r));
            match r {
                Some(j) => assert!(state_code(&it.state) == (2, j)),
                None => assert!(state_code(&it.state).0 == 3),
            }
        }
        ci += 1;
    }
}
