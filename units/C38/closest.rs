// C38 — closest-bucket enumeration (`ClosestBucketsIter`) and the order lemma.
//
// Statement: enumerating the closest keys to a target yields every stored key
// exactly once, in non-decreasing XOR distance to the target.  `ClosestIter`
// visits the buckets in the order produced by `ClosestBucketsIter` and emits each
// visited bucket's keys (sorted), so the obligation on the bucket iterator is:
// for ANY 256-bit distance d = local ^ target it yields every bucket index in
// 0..256 exactly once, then None forever, in an order in which every key of an
// earlier bucket is closer to the target than every key of a later bucket.
//
// Machine-checked induction.  For an iterator state s let Y(s) be the set of
// bucket indices "already yielded" (a loop-free predicate `in_y`, below):
//     Start(_)    : {}
//     ZoomIn(i)   : set bits of d at or above i            (plus {0} when d = 0)
//     ZoomOut(i)  : all set bits of d, and every index <= i
//     Done        : everything
// One step of the REAL `next()` from ANY state satisfying the representation
// invariant `inv` is proved to
//   (1) return Some(r) with r NOT in Y(s) and Y(s') = Y(s) + {r}, or None with
//       Y(s) = everything and s' = Done;               => exactly once, complete
//   (2) re-establish inv(s');
//   (3) respect the canonical order: everything in Y(s) is `before` r and r is
//       `before` everything outside Y(s');              => sorted bucket order
// where membership statements about sets are checked for an arbitrary (symbolic)
// index m, i.e. universally.  `new(d)` is proved to start in Start(i0) with Y = {}.
// `lemma_bucket_order_is_distance_order` proves that `before(i, j)` implies every
// key of bucket i is strictly closer to the target than every key of bucket j.

fn bit(w: &[u64; 4], i: usize) -> bool {
    (w[i / 64] >> (i % 64)) & 1 == 1
}

fn is_zero(w: &[u64; 4]) -> bool {
    w[0] == 0 && w[1] == 0 && w[2] == 0 && w[3] == 0
}

/// (tag, index) of an iterator state
fn state_code(s: &ClosestBucketsIterState) -> (u8, usize) {
    match s {
        ClosestBucketsIterState::Start(i) => (0, i.get()),
        ClosestBucketsIterState::ZoomIn(i) => (1, i.get()),
        ClosestBucketsIterState::ZoomOut(i) => (2, i.get()),
        ClosestBucketsIterState::Done => (3, 0),
    }
}

fn any_distance() -> ([u64; 4], Distance) {
    let w: [u64; 4] = kani::any();
    (w, Distance(U256(w)))
}

/// index of the bucket covering the target (None for d = 0: the target is the
/// local key).  `BucketIndex::new` is under contract in C40.
fn top(d: &Distance) -> Option<usize> {
    BucketIndex::new(d).map(|b| b.get())
}

/// representation invariant of the iterator state
fn inv(w: &[u64; 4], i0: Option<usize>, s: (u8, usize)) -> bool {
    match s {
        (0, i) => i == i0.unwrap_or(0),
        (1, i) => i < NUM_BUCKETS && if is_zero(w) { i == 0 } else { bit(w, i) },
        (2, i) => i < NUM_BUCKETS,
        _ => true,
    }
}

/// m is in Y(s): bucket m has already been yielded when the iterator is in state s
fn in_y(w: &[u64; 4], s: (u8, usize), m: usize) -> bool {
    match s {
        (0, _) => false,
        (1, i) => (m >= i && bit(w, m)) || (is_zero(w) && m == 0),
        (2, i) => bit(w, m) || m <= i,
        _ => true,
    }
}

/// canonical order: bucket i comes strictly before bucket j for a target whose
/// distance to the local key is w (i0 = highest set bit):
///   phase 0: i0;  phase 1: the other set bits, descending;  phase 2: clear bits, ascending
fn before(w: &[u64; 4], i0: Option<usize>, i: usize, j: usize) -> bool {
    let phase = |k: usize| -> u8 {
        if Some(k) == i0 { 0 } else if bit(w, k) { 1 } else { 2 }
    };
    let (pi, pj) = (phase(i), phase(j));
    if pi != pj {
        return pi < pj;
    }
    match pi {
        1 => i > j,
        2 => i < j,
        _ => false,
    }
}

// ---- the two implementations the step contract is checked on ---------------------
// (a) the real `ClosestBucketsIter` (called directly), and
// (b) `FragBucketsIter`: the bodies of ClosestBucketsIter::{new,next_in,next_out,next}
//     extracted verbatim from /repo on every run (unit.json `fragments`), with ONE
//     declared rewrite: the two calls `.find_map(` become `.verif_find_map(`, which
//     applies the ASSUMED CONTRACT of core's `Iterator::find_map` over
//     `Range<usize>` / `Rev<Range<usize>>` (below) instead of libcore's loop; the
//     range expressions and the closures stay the extracted text.
// Reason (measured): with a symbolic start index the 256-iteration `find_map`
// loops of (a) do not terminate under CBMC (chains of 256 symbolic increments and
// symbolic shifts: > 900 s for a 64-value block of indices), with a concrete or
// nearly exhausted range they do; (a) is therefore checked on the state classes
// that fit, (b) on every state.
pub(crate) trait Stepper {
    fn code(&self) -> (u8, usize);
    fn step(&mut self) -> Option<usize>;
}
impl Stepper for ClosestBucketsIter {
    fn code(&self) -> (u8, usize) {
        state_code(&self.state)
    }
    fn step(&mut self) -> Option<usize> {
        self.next().map(|b| b.get())
    }
}

pub(crate) struct FragBucketsIter {
    distance: Distance,
    state: ClosestBucketsIterState,
}
include!(concat!(env!("LIBP2P_VERIF_GEN"), "/C38/buckets_iter_fragment.rs"));
impl Stepper for FragBucketsIter {
    fn code(&self) -> (u8, usize) {
        state_code(&self.state)
    }
    fn step(&mut self) -> Option<usize> {
        self.next().map(|b| b.get())
    }
}

/// the universally quantified index `m` of the step contract; the find_map model
/// instantiates its (universally quantified) assumed postcondition at this index
static mut WITNESS: usize = 0x5EED_0C38_5EED_0C38; // distinctive (see shims/clock.rs); set before every use

pub(crate) struct ModelRange {
    lo: usize,
    hi: usize,
    rev: bool,
}
/// `.find_map(` in the extracted text is rewritten to `.verif_find_map(`: same
/// receiver (the real `Range<usize>` / `Rev<Range<usize>>` value built by the
/// extracted text), the search itself replaced by the assumed contract.
pub(crate) trait VerifFindMap {
    fn verif_find_map<B>(self, f: impl FnMut(usize) -> Option<B>) -> Option<B>;
}
impl VerifFindMap for std::ops::Range<usize> {
    fn verif_find_map<B>(self, f: impl FnMut(usize) -> Option<B>) -> Option<B> {
        let (lo, hi) = if self.start < self.end { (self.start, self.end) } else { (0, 0) };
        ModelRange { lo, hi, rev: false }.find_map(f)
    }
}
impl VerifFindMap for std::iter::Rev<std::ops::Range<usize>> {
    fn verif_find_map<B>(self, f: impl FnMut(usize) -> Option<B>) -> Option<B> {
        // the first element of the reversed range is its largest, the last its smallest (O(1) on Range)
        let (lo, hi) = match (self.clone().next_back(), self.clone().next()) {
            (Some(min), Some(max)) => (min, max + 1),
            _ => (0, 0),
        };
        ModelRange { lo, hi, rev: true }.find_map(f)
    }
}
impl ModelRange {
    /// ASSUMED CONTRACT of `core::iter::Iterator::find_map` on `lo..hi` (ascending)
    /// and `(lo..hi).rev()` (descending), for a pure `f`:
    ///   returns Some(f(x)) for the FIRST x in iteration order with f(x) = Some(_),
    ///   None if there is no such x.
    /// "First" / "no such" are universally quantified; the model assumes them at
    /// three indices (the one the harness will ask about, WITNESS, and the two ends of
    /// the range), which is weaker than the contract (more behaviours), hence sound
    /// for proving the harness assertions.
    fn find_map<B>(self, mut f: impl FnMut(usize) -> Option<B>) -> Option<B> {
        // instantiation points of the universally quantified part of the contract:
        // the harness's index and the two ends of the range
        let pts = [unsafe { WITNESS }, self.lo, self.hi.wrapping_sub(1)];
        if kani::any() {
            let x: usize = kani::any();
            kani::assume(self.lo <= x && x < self.hi);
            let y = f(x);
            kani::assume(y.is_some());
            let mut k = 0;
            while k < 3 {
                let w = pts[k];
                let earlier = if self.rev { w > x } else { w < x };
                if self.lo <= w && w < self.hi && earlier {
                    kani::assume(f(w).is_none());
                }
                k += 1;
            }
            y
        } else {
            let mut k = 0;
            while k < 3 {
                let w = pts[k];
                if self.lo <= w && w < self.hi {
                    kani::assume(f(w).is_none());
                }
                k += 1;
            }
            None
        }
    }
}

/// the step contract (1)-(3) for one call of `next()` from state `s0`
fn check_step<S: Stepper>(w: &[u64; 4], i0: Option<usize>, it: &mut S) {
    let m: usize = kani::any(); // universally quantified bucket index
    kani::assume(m < NUM_BUCKETS);
    unsafe { WITNESS = m };
    let s0 = it.code();
    let r = it.step();
    let s1 = it.code();
    kani::cover!(r.is_some());
    assert!(inv(w, i0, s1));
    match r {
        Some(r) => {
            assert!(r < NUM_BUCKETS);
            // exactly once: r is new, and the yielded set grows by exactly r
            assert!(!in_y(w, s0, r));
            assert!(in_y(w, s1, m) == (in_y(w, s0, m) || m == r));
            // order: every yielded bucket precedes r, r precedes every remaining one
            if in_y(w, s0, m) {
                assert!(before(w, i0, m, r));
            }
            if !in_y(w, s1, m) {
                assert!(before(w, i0, r, m));
            }
        }
        None => {
            // complete: None only after every bucket has been yielded; then Done forever
            assert!(in_y(w, s0, m));
            assert!(s1.0 == 3);
        }
    }
}

// ---- (b) every state, every distance: extracted text + find_map contract ----------
/// new(d) starts in Start(i0) (nothing yielded); the first step satisfies the contract.
#[kani::proof]
#[kani::unwind(34)]
fn frag_step_new_and_start() {
    let (w, d) = any_distance();
    let i0 = top(&d);
    let mut it = FragBucketsIter::new(d);
    let s = it.code();
    assert!(s.0 == 0 && inv(&w, i0, s));
    check_step(&w, i0, &mut it);
}

/// One step from ANY ZoomIn state (all 2^256 distances, all 256 indices).
#[kani::proof]
#[kani::unwind(34)]
fn frag_step_zoom_in() {
    let (w, d) = any_distance();
    let i0 = top(&d);
    let i: usize = kani::any();
    kani::assume(inv(&w, i0, (1, i)));
    let mut it = FragBucketsIter { distance: d, state: ClosestBucketsIterState::ZoomIn(BucketIndex(i)) };
    check_step(&w, i0, &mut it);
}

/// One step from ANY ZoomOut state.
#[kani::proof]
#[kani::unwind(34)]
fn frag_step_zoom_out() {
    let (w, d) = any_distance();
    let i0 = top(&d);
    let i: usize = kani::any();
    kani::assume(inv(&w, i0, (2, i)));
    let mut it = FragBucketsIter { distance: d, state: ClosestBucketsIterState::ZoomOut(BucketIndex(i)) };
    check_step(&w, i0, &mut it);
}

/// Done is absorbing.
#[kani::proof]
#[kani::unwind(34)]
fn frag_step_done() {
    let (w, d) = any_distance();
    let i0 = top(&d);
    let mut it = FragBucketsIter { distance: d, state: ClosestBucketsIterState::Done };
    let m: usize = kani::any();
    kani::assume(m < NUM_BUCKETS);
    let r = it.step();
    assert!(r.is_none() && it.code().0 == 3 && in_y(&w, (3, 0), m));
    let _ = i0;
}

// ---- (a) the real iterator, called directly ------------------------------------------
/// new(d) and the first step, every distance (loop-free path).
#[kani::proof]
fn real_step_new_and_start() {
    let (w, d) = any_distance();
    let i0 = top(&d);
    let mut it = ClosestBucketsIter::new(d);
    let s = it.code();
    assert!(s.0 == 0 && inv(&w, i0, s));
    check_step(&w, i0, &mut it);
}

/// The step out of ZoomIn(bucket 0) — where zooming in hands over to zooming out —
/// for every distance (concrete start index: the loops fold).
#[kani::proof]
#[kani::unwind(258)]
fn real_step_zoom_in_at_bucket_0() {
    let (w, d) = any_distance();
    let i0 = top(&d);
    kani::assume(inv(&w, i0, (1, 0)));
    let mut it = ClosestBucketsIter { distance: d, state: ClosestBucketsIterState::ZoomIn(BucketIndex(0)) };
    check_step(&w, i0, &mut it);
}

/// One step from ZoomIn(i), 1 <= i < 64, every distance.
#[kani::proof]
#[kani::unwind(66)]
fn real_step_zoom_in_low_indices() {
    let (w, d) = any_distance();
    let i0 = top(&d);
    let i: usize = kani::any();
    kani::assume(1 <= i && i < 64);
    kani::assume(inv(&w, i0, (1, i)));
    let mut it = ClosestBucketsIter { distance: d, state: ClosestBucketsIterState::ZoomIn(BucketIndex(i)) };
    check_step(&w, i0, &mut it);
}

/// One step from ZoomOut(i), 192 <= i < 256, every distance.
#[kani::proof]
#[kani::unwind(66)]
fn real_step_zoom_out_high_indices() {
    let (w, d) = any_distance();
    let i0 = top(&d);
    let i: usize = kani::any();
    kani::assume(192 <= i);
    kani::assume(inv(&w, i0, (2, i)));
    let mut it = ClosestBucketsIter { distance: d, state: ClosestBucketsIterState::ZoomOut(BucketIndex(i)) };
    check_step(&w, i0, &mut it);
}

/// Done is absorbing (real iterator).
#[kani::proof]
fn real_step_done() {
    let (_, d) = any_distance();
    let mut it = ClosestBucketsIter { distance: d, state: ClosestBucketsIterState::Done };
    assert!(it.next().is_none());
    assert!(it.code().0 == 3);
    assert!(it.next().is_none());
}

/// Cross-check of the assumed find_map contract against libcore's real `find_map`
/// on every sub-range of 0..8, both directions, every predicate on 0..8.
#[kani::proof]
#[kani::unwind(10)]
fn model_selftest_find_map_contract() {
    let tbl: [bool; 8] = kani::any();
    let lo: usize = kani::any();
    let hi: usize = kani::any();
    kani::assume(lo <= 8 && hi <= 8);
    let rev: bool = kani::any();
    let f = |x: usize| if tbl[x] { Some(x) } else { None };
    let r = if rev { (lo..hi).rev().find_map(f) } else { (lo..hi).find_map(f) };
    let w: usize = kani::any();
    kani::assume(w < 8);
    let w_in = lo <= w && w < hi;
    match r {
        Some(x) => {
            assert!(lo <= x && x < hi && tbl[x]);
            let earlier = if rev { w > x } else { w < x };
            if w_in && earlier {
                assert!(!tbl[w]);
            }
        }
        None => {
            if w_in {
                assert!(!tbl[w]);
            }
        }
    }
}

// ---- order lemma ---------------------------------------------------------------
fn le(a: &[u64; 4], b: &[u64; 4]) -> bool {
    if a[3] != b[3] { return a[3] < b[3]; }
    if a[2] != b[2] { return a[2] < b[2]; }
    if a[1] != b[1] { return a[1] < b[1]; }
    a[0] <= b[0]
}

fn xor(a: &[u64; 4], b: &[u64; 4]) -> [u64; 4] {
    [a[0] ^ b[0], a[1] ^ b[1], a[2] ^ b[2], a[3] ^ b[3]]
}

/// If bucket i is enumerated before bucket j, every key of bucket i is strictly
/// closer to the target than every key of bucket j (so concatenating per-bucket
/// sorted runs is globally sorted).  x = local^a, y = local^b, D = local^target.
#[kani::proof]
fn lemma_bucket_order_is_distance_order() {
    let (dw, d) = any_distance();
    let (xw, x) = any_distance();
    let (yw, y) = any_distance();
    let i0 = top(&d);
    let (i, j) = match (BucketIndex::new(&x), BucketIndex::new(&y)) {
        (Some(i), Some(j)) => (i.get(), j.get()),
        _ => return, // the local key itself is never stored
    };
    kani::assume(before(&dw, i0, i, j));
    kani::cover!(true);
    let da = xor(&dw, &xw); // distance target..a
    let db = xor(&dw, &yw);
    assert!(le(&da, &db) && da != db);
}

/// `before` is a strict total order on bucket indices (so "sorted by before" is
/// well defined): irreflexive, total, transitive.
#[kani::proof]
fn lemma_before_is_strict_total_order() {
    let (w, d) = any_distance();
    let i0 = top(&d);
    let (a, b, c): (usize, usize, usize) = (kani::any(), kani::any(), kani::any());
    kani::assume(a < NUM_BUCKETS && b < NUM_BUCKETS && c < NUM_BUCKETS);
    assert!(!before(&w, i0, a, a));
    if a != b {
        assert!(before(&w, i0, a, b) != before(&w, i0, b, a));
    }
    if before(&w, i0, a, b) && before(&w, i0, b, c) {
        assert!(before(&w, i0, a, c));
    }
}

/// Vacuity canary (extracted text + model): must FAIL (a zoom-out step does end).
#[kani::proof]
#[kani::unwind(34)]
fn canary_frag_zoom_out_never_ends() {
    let (w, d) = any_distance();
    let i: usize = kani::any();
    kani::assume(i < NUM_BUCKETS);
    kani::assume(!bit(&w, i));
    let mut it = FragBucketsIter { distance: d, state: ClosestBucketsIterState::ZoomOut(BucketIndex(i)) };
    assert!(it.step().is_some());
}

/// Vacuity canary (real iterator): must FAIL.
#[kani::proof]
#[kani::unwind(8)]
fn canary_real_zoom_out_never_ends() {
    let (w, d) = any_distance();
    let i: usize = kani::any();
    kani::assume(i >= 250 && i < NUM_BUCKETS);
    kani::assume(!bit(&w, i));
    let mut it = ClosestBucketsIter { distance: d, state: ClosestBucketsIterState::ZoomOut(BucketIndex(i)) };
    assert!(it.next().is_some());
}
