// C52 — connection limits.  check_limit(limit, current, kind):
//   Ok  <=>  current < limit (no limit configured = unlimited),
// i.e. a connection is admitted only while the tracked count is strictly below
// the configured maximum, so the count never exceeds it.

pub(crate) fn spec_admits(limit: Option<u32>, current: usize) -> bool {
    match limit {
        None => (current as u64) < u32::MAX as u64,
        Some(l) => (current as u64) < l as u64,
    }
}

pub(crate) fn post_check_limit(limit: Option<u32>, current: usize, r: &Result<(), ConnectionDenied>) -> bool {
    r.is_ok() == spec_admits(limit, current)
}

fn no_format(_args: std::fmt::Arguments<'_>) -> String {
    String::new()
}

/// In-place contract of the real check_limit, all Option<u32> x all usize <= u32::MAX.
#[kani::proof_for_contract(check_limit)]
fn contract_check_limit() {
    let limit: Option<u32> = kani::any();
    let current: usize = kani::any();
    let k: u8 = kani::any();
    let kind = match k % 6 {
        0 => Kind::PendingIncoming,
        1 => Kind::PendingOutgoing,
        2 => Kind::EstablishedIncoming,
        3 => Kind::EstablishedOutgoing,
        4 => Kind::EstablishedPerPeer,
        _ => Kind::EstablishedTotal,
    };
    let r = check_limit(limit, current, kind);
    std::mem::forget(r);
}

/// The denial carries the configured limit.
#[kani::proof]
fn denial_reports_the_limit() {
    let l: u32 = kani::any();
    let current: usize = kani::any();
    kani::assume(current <= u32::MAX as usize);
    match check_limit(Some(l), current, Kind::EstablishedTotal) {
        Ok(()) => assert!((current as u64) < l as u64),
        Err(e) => {
            assert!(current as u64 >= l as u64);
            let ex = e.downcast::<Exceeded>();
            match ex {
                Ok(ex) => assert!(ex.limit() == l),
                Err(_) => assert!(false),
            }
        }
    }
}

/// Vacuity canary: must FAIL.
#[kani::proof]
fn canary_limit_never_denies() {
    let limit: Option<u32> = kani::any();
    let current: usize = kani::any();
    kani::assume(current <= u32::MAX as usize);
    let r = check_limit(limit, current, Kind::PendingIncoming);
    assert!(r.is_ok());
    std::mem::forget(r);
}
