// C52 — the connection-limits Behaviour (std HashMap/HashSet -> dependency shim).
// One step from ANY tracked state (each set <= 2 ids, <= 2 peers) under ANY
// configured limits.
use libp2p_swarm::{DialError, ListenError};

fn any_peer() -> PeerId {
    let d: [u8; 1] = kani::any();
    PeerId::from_multihash(libp2p_core::multihash::Multihash::<64>::wrap(0, &d).unwrap()).unwrap()
}

fn any_id() -> ConnectionId {
    ConnectionId::new_unchecked(kani::any::<u8>() as usize)
}

fn any_limits() -> ConnectionLimits {
    let l = || -> Option<u32> { if kani::any() { Some(kani::any::<u8>() as u32) } else { None } };
    ConnectionLimits::default()
        .with_max_pending_incoming(l())
        .with_max_pending_outgoing(l())
        .with_max_established_incoming(l())
        .with_max_established_outgoing(l())
        .with_max_established_per_peer(l())
        .with_max_established(l())
}

fn fill(s: &mut HashSet<ConnectionId>) {
    if kani::any() {
        s.insert(any_id());
    }
    if kani::any() {
        s.insert(any_id());
    }
}

fn any_behaviour() -> Behaviour {
    let mut b = Behaviour::new(any_limits());
    fill(&mut b.pending_inbound_connections);
    fill(&mut b.pending_outbound_connections);
    fill(&mut b.established_inbound_connections);
    fill(&mut b.established_outbound_connections);
    if kani::any() {
        let mut s = HashSet::new();
        fill(&mut s);
        b.established_per_peer.insert(any_peer(), s);
    }
    if kani::any() {
        b.bypass_peer_id.insert(any_peer());
    }
    b
}

#[derive(Clone, Copy, PartialEq, Eq)]
struct Counts {
    pin: usize,
    pout: usize,
    ein: usize,
    eout: usize,
}
fn counts(b: &Behaviour) -> Counts {
    Counts {
        pin: b.pending_inbound_connections.len(),
        pout: b.pending_outbound_connections.len(),
        ein: b.established_inbound_connections.len(),
        eout: b.established_outbound_connections.len(),
    }
}
fn per_peer(b: &Behaviour, p: &PeerId) -> usize {
    b.established_per_peer.get(p).map(|s| s.len()).unwrap_or(0)
}
fn below(limit: Option<u32>, n: usize) -> bool {
    match limit {
        None => true,
        Some(l) => (n as u64) < l as u64,
    }
}

#[kani::proof]
#[kani::unwind(8)]
fn contract_pending_inbound() {
    let mut b = any_behaviour();
    let c0 = counts(&b);
    let id = any_id();
    let had = b.pending_inbound_connections.contains(&id);
    let a = Multiaddr::empty();
    let r = b.handle_pending_inbound_connection(id, &a, &a);
    let admit = below(b.limits.max_pending_incoming, c0.pin);
    assert!(r.is_ok() == admit);
    let c1 = counts(&b);
    if admit {
        assert!(b.pending_inbound_connections.contains(&id));
        assert!(c1.pin == c0.pin + (!had) as usize);
        // admitted only strictly below the limit => the limit still holds afterwards
        if let Some(l) = b.limits.max_pending_incoming {
            assert!(c1.pin as u64 <= l as u64);
        }
    } else {
        assert!(c1.pin == c0.pin);
    }
    assert!(c1.pout == c0.pout && c1.ein == c0.ein && c1.eout == c0.eout);
    std::mem::forget(r);
}

fn any_role() -> Endpoint {
    if kani::any() { Endpoint::Dialer } else { Endpoint::Listener }
}

#[kani::proof]
#[kani::unwind(8)]
fn contract_pending_outbound() {
    let mut b = any_behaviour();
    let c0 = counts(&b);
    let id = any_id();
    let had = b.pending_outbound_connections.contains(&id);
    let peer: Option<PeerId> = if kani::any() { Some(any_peer()) } else { None };
    let bypass = peer.map_or(false, |p| b.bypass_peer_id.contains(&p));
    // the role override is a caller-chosen hint (hole punching dials as Listener): the
    // limit on pending OUTGOING connections applies whatever it is
    let r = b.handle_pending_outbound_connection(id, peer, &[], any_role());
    let c1 = counts(&b);
    if bypass {
        assert!(r.is_ok());
        assert!(c1 == c0);
    } else {
        let admit = below(b.limits.max_pending_outgoing, c0.pout);
        assert!(r.is_ok() == admit);
        if admit {
            assert!(b.pending_outbound_connections.contains(&id));
            assert!(c1.pout == c0.pout + (!had) as usize);
            if let Some(l) = b.limits.max_pending_outgoing {
                assert!(c1.pout as u64 <= l as u64);
            }
        } else {
            assert!(c1.pout == c0.pout);
        }
        assert!(c1.pin == c0.pin && c1.ein == c0.ein && c1.eout == c0.eout);
    }
    std::mem::forget(r);
}

/// admission of an established connection, followed (when admitted) by the
/// ConnectionEstablished event the swarm then delivers: no configured maximum is
/// exceeded afterwards (non-bypassed peer).
#[kani::proof]
#[kani::unwind(8)]
fn contract_established_then_event() {
    let mut b = any_behaviour();
    let inbound: bool = kani::any();
    let id = any_id();
    let peer = any_peer();
    let a = Multiaddr::empty();
    let role = any_role();
    let port_use = if kani::any() { PortUse::Reuse } else { PortUse::New };
    let bypass = b.bypass_peer_id.contains(&peer);
    // the id is fresh (Swarm hands out unique ids, C03)
    kani::assume(!b.established_inbound_connections.contains(&id) && !b.established_outbound_connections.contains(&id));
    kani::assume(b.established_per_peer.get(&peer).map_or(true, |s| !s.contains(&id)));
    let c0 = counts(&b);
    let pp0 = per_peer(&b, &peer);
    let r = if inbound {
        b.handle_established_inbound_connection(id, peer, &a, &a).map(|_| ())
    } else {
        // an outbound connection is outbound whatever its role override / port use
        b.handle_established_outbound_connection(id, peer, &a, role, port_use).map(|_| ())
    };
    // the pending entry of that id is released either way
    assert!(!b.pending_inbound_connections.contains(&id) || !inbound);
    assert!(!b.pending_outbound_connections.contains(&id) || inbound);
    let dir_limit = if inbound { b.limits.max_established_incoming } else { b.limits.max_established_outgoing };
    let dir_count = if inbound { c0.ein } else { c0.eout };
    let admit = bypass
        || (below(dir_limit, dir_count)
            && below(b.limits.max_established_per_peer, pp0)
            && below(b.limits.max_established_total, c0.ein + c0.eout));
    assert!(r.is_ok() == admit);
    let admitted = r.is_ok();
    std::mem::forget(r);
    let c_mid = counts(&b);
    assert!(c_mid.ein == c0.ein && c_mid.eout == c0.eout);
    if admitted {
        let endpoint = if inbound {
            ConnectedPoint::Listener { local_addr: a.clone(), send_back_addr: a.clone() }
        } else {
            ConnectedPoint::Dialer { address: a.clone(), role_override: role, port_use }
        };
        b.on_swarm_event(FromSwarm::ConnectionEstablished(ConnectionEstablished {
            peer_id: peer,
            connection_id: id,
            endpoint: &endpoint,
            failed_addresses: &[],
            other_established: 0,
        }));
        let c1 = counts(&b);
        // exactly this id is now tracked, in the right direction and for the right peer
        assert!(c1.ein == c0.ein + inbound as usize && c1.eout == c0.eout + (!inbound) as usize);
        assert!(per_peer(&b, &peer) == pp0 + 1);
        if !bypass {
            if let Some(l) = dir_limit {
                assert!((if inbound { c1.ein } else { c1.eout }) as u64 <= l as u64);
            }
            if let Some(l) = b.limits.max_established_per_peer {
                assert!(per_peer(&b, &peer) as u64 <= l as u64);
            }
            if let Some(l) = b.limits.max_established_total {
                assert!((c1.ein + c1.eout) as u64 <= l as u64);
            }
        }
    }
}

/// closing / failing releases exactly the reported id
#[kani::proof]
#[kani::unwind(8)]
fn contract_release_events() {
    let mut b = any_behaviour();
    let id = any_id();
    let peer = any_peer();
    let other = any_id();
    kani::assume(other != id);
    let snap = |b: &Behaviour, x: &ConnectionId| {
        (b.pending_inbound_connections.contains(x), b.pending_outbound_connections.contains(x),
         b.established_inbound_connections.contains(x), b.established_outbound_connections.contains(x))
    };
    let o0 = snap(&b, &other);
    let i0 = snap(&b, &id);
    let a = Multiaddr::empty();
    let k: u8 = kani::any();
    match k % 3 {
        0 => {
            let endpoint = ConnectedPoint::Listener { local_addr: a.clone(), send_back_addr: a.clone() };
            b.on_swarm_event(FromSwarm::ConnectionClosed(ConnectionClosed {
                peer_id: peer,
                connection_id: id,
                endpoint: &endpoint,
                cause: None,
                remaining_established: 0,
            }));
            let i1 = snap(&b, &id);
            assert!(!i1.2 && !i1.3 && i1.0 == i0.0 && i1.1 == i0.1);
            assert!(b.established_per_peer.get(&peer).map_or(true, |s| !s.contains(&id)));
        }
        1 => {
            let e = DialError::Aborted;
            b.on_swarm_event(FromSwarm::DialFailure(DialFailure { peer_id: Some(peer), error: &e, connection_id: id }));
            let i1 = snap(&b, &id);
            assert!(!i1.1 && i1.0 == i0.0 && i1.2 == i0.2 && i1.3 == i0.3);
            std::mem::forget(e);
        }
        _ => {
            let e = ListenError::Aborted;
            b.on_swarm_event(FromSwarm::ListenFailure(ListenFailure {
                local_addr: &a,
                send_back_addr: &a,
                error: &e,
                connection_id: id,
                peer_id: None,
            }));
            let i1 = snap(&b, &id);
            assert!(!i1.0 && i1.1 == i0.1 && i1.2 == i0.2 && i1.3 == i0.3);
            std::mem::forget(e);
        }
    }
    // frame: any other id is untouched
    assert!(snap(&b, &other) == o0);
}

/// Vacuity canary: must FAIL.
#[kani::proof]
#[kani::unwind(8)]
fn canary_pending_inbound_always_admitted() {
    let mut b = any_behaviour();
    let a = Multiaddr::empty();
    let r = b.handle_pending_inbound_connection(any_id(), &a, &a);
    assert!(r.is_ok());
    std::mem::forget(r);
}

// ---- dependency-shim self test (vacuity guard for the guard) ----------------
#[kani::proof]
#[kani::unwind(8)]
fn shim_selftest_nested_map_of_sets() {
    let mut m: HashMap<u8, HashSet<ConnectionId>> = HashMap::new();
    let k: u8 = kani::any();
    let id = any_id();
    let id2 = any_id();
    kani::assume(id2 != id);
    assert!(m.get(&k).is_none());
    m.entry(k).or_default().insert(id);
    assert!(m.get(&k).map_or(false, |s| s.contains(&id)));
    assert!(m.get(&k).map_or(false, |s| !s.contains(&id2)));
    assert!(m.len() == 1);
    m.entry(k).or_default().insert(id2);
    assert!(m.get(&k).map_or(0, |s| s.len()) == 2);
    m.entry(k).or_default().remove(&id);
    assert!(m.get(&k).map_or(false, |s| !s.contains(&id) && s.contains(&id2)));
    let other: u8 = kani::any();
    kani::assume(other != k);
    m.entry(other).or_default().remove(&id);
    assert!(m.len() == 2);
    assert!(m.get(&other).map_or(false, |s| s.is_empty()));
    assert!(m.remove(&k).is_some());
    assert!(m.get(&k).is_none() && m.len() == 1);
}

/// regression self-test for the shim cell layout (see shims/collections.rs `Slot`):
/// two live entries keyed by PeerId whose value is a nested set, looked up through
/// find() (symbolic cell index).  Failed spuriously with niche-encoded cells.
#[kani::proof]
#[kani::unwind(8)]
fn shim_selftest_peer_key_two_entries() {
    let mut m: HashMap<PeerId, HashSet<ConnectionId>> = HashMap::new();
    if kani::any() {
        let mut s = HashSet::new();
        fill(&mut s);
        m.insert(any_peer(), s);
    }
    let k = any_peer();
    let id = any_id();
    let before = m.get(&k).map_or(0, |s| s.len());
    let had = m.get(&k).map_or(false, |s| s.contains(&id));
    m.entry(k).or_default().remove(&id);
    assert!(m.get(&k).map_or(false, |s| !s.contains(&id)));
    assert!(m.get(&k).map_or(0, |s| s.len()) == before - had as usize);
    assert!(m.len() <= 2);
}

