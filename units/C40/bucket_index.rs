// C40 — bucket index = position of highest set bit of the distance.
use super::key::verif::c40::{spec_is_ilog2, spec_le};

/// Postcondition of the real `BucketIndex::new` (attached in place).
pub(crate) fn post_bucket_index(d: &Distance, r: &Option<BucketIndex>) -> bool {
    match r {
        None => d.0.0 == [0u64; 4],
        Some(i) => i.0 < NUM_BUCKETS && spec_is_ilog2(&d.0.0, Some(i.0 as u32)),
    }
}

/// Modular: BucketIndex::new is checked against its contract seeing only the
/// *contract* of Distance::ilog2 (stub_verified), not its body.
#[kani::proof_for_contract(BucketIndex::new)]
#[kani::stub_verified(Distance::ilog2)]
fn contract_bucket_index_new() {
    let w: [u64; 4] = kani::any();
    let d = Distance(U256(w));
    let _ = BucketIndex::new(&d);
}

#[kani::proof]
fn bucket_index_is_highest_set_bit() {
    let w: [u64; 4] = kani::any();
    let d = Distance(U256(w));
    match BucketIndex::new(&d) {
        None => assert!(w == [0u64; 4]),
        Some(i) => {
            assert!(i.get() < NUM_BUCKETS);
            assert!(spec_is_ilog2(&w, Some(i.get() as u32)));
        }
    }
}

/// `range()` of the index computed for `d` contains `d`, and is exactly
/// [2^i, 2^(i+1)-1].
#[kani::proof]
#[kani::unwind(258)]
fn bucket_range_contains_distance() {
    let w: [u64; 4] = kani::any();
    let d = Distance(U256(w));
    if let Some(i) = BucketIndex::new(&d) {
        let (lo, hi) = i.range();
        assert!(spec_le(&lo.0.0, &w));
        assert!(spec_le(&w, &hi.0.0));
        assert!(spec_is_ilog2(&lo.0.0, Some(i.get() as u32)));
        assert!(spec_is_ilog2(&hi.0.0, Some(i.get() as u32)));
    }
}
