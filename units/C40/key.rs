// C40 — XOR metric.  Spec functions are written over raw bytes / 64-bit words,
// independently of `uint::U256`'s own operators, so the contracts pin the real
// functions to the mathematical definition instead of restating their bodies.

/// Big-endian 32 bytes -> little-endian-ordered 4 words (U256's representation).
pub(crate) fn spec_words(b: &[u8; 32]) -> [u64; 4] {
    let w = |o: usize| -> u64 {
        u64::from_be_bytes([b[o], b[o + 1], b[o + 2], b[o + 3], b[o + 4], b[o + 5], b[o + 6], b[o + 7]])
    };
    [w(24), w(16), w(8), w(0)]
}

pub(crate) fn spec_xor(a: &[u8; 32], b: &[u8; 32]) -> [u64; 4] {
    let x = spec_words(a);
    let y = spec_words(b);
    [x[0] ^ y[0], x[1] ^ y[1], x[2] ^ y[2], x[3] ^ y[3]]
}

pub(crate) fn bytes_of(k: &KeyBytes) -> [u8; 32] {
    let mut out = [0u8; 32];
    out.copy_from_slice(k.0.as_slice());
    out
}

pub(crate) fn key_of(b: [u8; 32]) -> KeyBytes {
    KeyBytes(Array::from(b))
}

/// `r` is the position of the highest set bit of the 256-bit number `w`
/// (None iff w == 0): i.e. 2^i <= w < 2^(i+1).
pub(crate) fn spec_is_ilog2(w: &[u64; 4], r: Option<u32>) -> bool {
    match r {
        None => w[0] == 0 && w[1] == 0 && w[2] == 0 && w[3] == 0,
        Some(i) => {
            if i >= 256 {
                return false;
            }
            let wi = (i / 64) as usize;
            let bi = i % 64;
            let higher_zero = (wi >= 3 || w[3] == 0) && (wi >= 2 || w[2] == 0) && (wi >= 1 || w[1] == 0);
            higher_zero && (w[wi] >> bi) == 1
        }
    }
}

/// a <= b on 256-bit numbers in word representation.
pub(crate) fn spec_le(a: &[u64; 4], b: &[u64; 4]) -> bool {
    if a[3] != b[3] { return a[3] < b[3]; }
    if a[2] != b[2] { return a[2] < b[2]; }
    if a[1] != b[1] { return a[1] < b[1]; }
    a[0] <= b[0]
}

/// Postcondition of the real `KeyBytes::distance` (attached in place).
pub(crate) fn post_distance(a: &KeyBytes, b: &KeyBytes, d: &Distance) -> bool {
    d.0.0 == spec_xor(&bytes_of(a), &bytes_of(b))
}

/// Postcondition of the real `KeyBytes::for_distance` (attached in place):
/// the result is the unique key whose XOR with `a` is `d`.
pub(crate) fn post_for_distance(a: &KeyBytes, d: &Distance, k: &KeyBytes) -> bool {
    spec_xor(&bytes_of(a), &bytes_of(k)) == d.0.0
}

fn any_key() -> ([u8; 32], KeyBytes) {
    let b: [u8; 32] = kani::any();
    (b, key_of(b))
}

// ---- contracts of the real functions --------------------------------------

/// KeyBytes::distance(a, b) is the bytewise XOR read as a big-endian integer
/// (contract `post_distance`, asserted by the harness: the attribute form costs
/// 617 s here because of CBMC's write-set instrumentation of the 32-byte loops).
#[kani::proof]
#[kani::unwind(34)]
fn contract_distance() {
    let (_, a) = any_key();
    let (_, b) = any_key();
    let d = a.distance(&b);
    assert!(post_distance(&a, &b, &d));
}

/// Contract `post_for_distance`.
#[kani::proof]
#[kani::unwind(34)]
fn contract_for_distance() {
    let (_, a) = any_key();
    let w: [u64; 4] = kani::any();
    let d = Distance(U256(w));
    let k = a.for_distance(d);
    assert!(post_for_distance(&a, &d, &k));
}

/// In-place contract on Distance::ilog2 (`spec_is_ilog2`).
#[kani::proof_for_contract(Distance::ilog2)]
fn contract_ilog2() {
    let w: [u64; 4] = kani::any();
    let _ = Distance(U256(w)).ilog2();
}

/// Key<T>::distance delegates to the same metric.
#[kani::proof]
#[kani::unwind(34)]
fn key_distance_is_keybytes_distance() {
    let (ab, a) = any_key();
    let (bb, b) = any_key();
    let ka = Key { preimage: (), bytes: a };
    let kb = Key { preimage: (), bytes: b };
    assert!(ka.distance(&kb).0.0 == spec_xor(&ab, &bb));
    assert!(ka.for_distance(Distance(U256(spec_xor(&ab, &bb)))) == b);
}

/// for_distance inverts distance: a.for_distance(d(a,b)) == b, and
/// d(a, a.for_distance(d)) == d for every d.
#[kani::proof]
#[kani::unwind(34)]
fn for_distance_inverts_distance() {
    let (_, a) = any_key();
    let (_, b) = any_key();
    assert!(a.for_distance(a.distance(&b)) == b);
    let w: [u64; 4] = kani::any();
    let d = Distance(U256(w));
    assert!(a.distance(&a.for_distance(d)) == d);
}

#[kani::proof]
#[kani::unwind(34)]
fn distance_zero_iff_equal() {
    let (ab, a) = any_key();
    let (bb, b) = any_key();
    let d = a.distance(&b);
    assert!((d == Distance::default()) == (ab == bb));
    assert!(d.0.is_zero() == (a == b));
}

#[kani::proof]
#[kani::unwind(34)]
fn distance_symmetric() {
    let (_, a) = any_key();
    let (_, b) = any_key();
    assert!(a.distance(&b) == b.distance(&a));
}

/// d(a,c) <= d(a,b) + d(b,c) whenever the sum is representable (and the
/// metric's `Ord` is the numeric order on 256-bit integers).
#[kani::proof]
#[kani::unwind(34)]
fn distance_triangle() {
    let (_, a) = any_key();
    let (_, b) = any_key();
    let (_, c) = any_key();
    let ab = a.distance(&b);
    let bc = b.distance(&c);
    let ac = a.distance(&c);
    if let Some(sum) = ab.0.checked_add(bc.0) {
        assert!(ac <= Distance(sum));
        assert!(spec_le(&ac.0.0, &sum.0));
    }
}

/// `Ord` on Distance is the numeric order of the 256-bit value.
#[kani::proof]
fn distance_ord_is_numeric() {
    let x: [u64; 4] = kani::any();
    let y: [u64; 4] = kani::any();
    assert!((Distance(U256(x)) <= Distance(U256(y))) == spec_le(&x, &y));
}

#[kani::proof]
#[kani::unwind(34)]
fn distance_unidirectional() {
    let (ab, a) = any_key();
    let (bb, b) = any_key();
    let (cb, c) = any_key();
    if a.distance(&b) == a.distance(&c) {
        assert!(bb == cb);
        assert!(b == c);
    }
    let _ = ab;
}

/// Distance::ilog2 is the position of the highest set bit.
#[kani::proof]
fn ilog2_is_highest_set_bit() {
    let w: [u64; 4] = kani::any();
    let r = Distance(U256(w)).ilog2();
    assert!(spec_is_ilog2(&w, r));
    // the spec is functional: any other answer is rejected
    let other: Option<u32> = kani::any();
    if other != r {
        assert!(!spec_is_ilog2(&w, other));
    }
}

/// Vacuity canary: must FAIL (negated postcondition of distance symmetry /
/// zero-iff-equal).
#[kani::proof]
#[kani::unwind(34)]
fn canary_distance_nonzero() {
    let (_, a) = any_key();
    let (_, b) = any_key();
    assert!(!a.distance(&b).0.is_zero());
}

/// Used by C37: equality of two KeyBytes that are known to differ at most in their
/// last byte (the C37 harness builds all keys as 31 zero bytes + one symbolic
/// byte).  Exact for such keys; replaces the 32-byte memcmp, which CBMC cannot
/// afford at symbolic Vec offsets.
pub(crate) fn eq_last_byte(a: &KeyBytes, b: &KeyBytes) -> bool {
    a.0[31] == b.0[31]
}
