// C02 — ConnectionCounters: each mutator moves exactly one of the four counters
// by exactly one and leaves the other three unchanged (frame), and the derived
// totals are the sums.  Contracts are attached in place (kani::requires /
// modifies / ensures on the real methods in swarm/src/connection/pool.rs).

pub(crate) const PENDING_IN: usize = 0;
pub(crate) const PENDING_OUT: usize = 1;
pub(crate) const EST_IN: usize = 2;
pub(crate) const EST_OUT: usize = 3;

/// Abstract view: [pending_incoming, pending_outgoing, established_incoming, established_outgoing]
pub(crate) fn snap(c: &ConnectionCounters) -> [u32; 4] {
    [c.pending_incoming, c.pending_outgoing, c.established_incoming, c.established_outgoing]
}

pub(crate) fn slot_pending(e: &PendingPoint) -> usize {
    match e {
        PendingPoint::Dialer { .. } => PENDING_OUT,
        PendingPoint::Listener { .. } => PENDING_IN,
    }
}

pub(crate) fn slot_established(e: &ConnectedPoint) -> usize {
    match e {
        ConnectedPoint::Dialer { .. } => EST_OUT,
        ConnectedPoint::Listener { .. } => EST_IN,
    }
}

pub(crate) fn can_inc(c: &ConnectionCounters, slot: usize) -> bool {
    snap(c)[slot] < u32::MAX
}

pub(crate) fn can_dec(c: &ConnectionCounters, slot: usize) -> bool {
    snap(c)[slot] > 0
}

/// post: counter `slot` moved by `delta` (+1/-1), every other counter unchanged.
pub(crate) fn stepped(old: [u32; 4], c: &ConnectionCounters, slot: usize, delta: i64) -> bool {
    let new = snap(c);
    let mut ok = true;
    let mut i = 0;
    while i < 4 {
        if i == slot {
            ok = ok && (new[i] as i64 == old[i] as i64 + delta);
        } else {
            ok = ok && new[i] == old[i];
        }
        i += 1;
    }
    ok
}

/// Needed by `stub_verified`: the contract's `modifies(self)` havocs the
/// counters with an arbitrary value before assuming the postcondition.
impl kani::Arbitrary for ConnectionCounters {
    fn any() -> Self {
        ConnectionCounters {
            pending_incoming: kani::any(),
            pending_outgoing: kani::any(),
            established_incoming: kani::any(),
            established_outgoing: kani::any(),
        }
    }
}

fn any_counters() -> ConnectionCounters {
    kani::any()
}

fn any_pending_point() -> PendingPoint {
    if kani::any() {
        PendingPoint::Dialer {
            role_override: if kani::any() { Endpoint::Dialer } else { Endpoint::Listener },
            port_use: if kani::any() { PortUse::New } else { PortUse::Reuse },
        }
    } else {
        PendingPoint::Listener {
            local_addr: Multiaddr::empty(),
            send_back_addr: Multiaddr::empty(),
        }
    }
}

fn any_connected_point() -> ConnectedPoint {
    if kani::any() {
        ConnectedPoint::Dialer {
            address: Multiaddr::empty(),
            role_override: if kani::any() { Endpoint::Dialer } else { Endpoint::Listener },
            port_use: if kani::any() { PortUse::New } else { PortUse::Reuse },
        }
    } else {
        ConnectedPoint::Listener {
            local_addr: Multiaddr::empty(),
            send_back_addr: Multiaddr::empty(),
        }
    }
}

#[kani::proof_for_contract(ConnectionCounters::inc_pending)]
fn contract_inc_pending() {
    let mut c = any_counters();
    let e = any_pending_point();
    c.inc_pending(&e);
}

#[kani::proof_for_contract(ConnectionCounters::inc_pending_incoming)]
fn contract_inc_pending_incoming() {
    let mut c = any_counters();
    c.inc_pending_incoming();
}

#[kani::proof_for_contract(ConnectionCounters::dec_pending)]
fn contract_dec_pending() {
    let mut c = any_counters();
    let e = any_pending_point();
    c.dec_pending(&e);
}

#[kani::proof_for_contract(ConnectionCounters::inc_established)]
fn contract_inc_established() {
    let mut c = any_counters();
    let e = any_connected_point();
    c.inc_established(&e);
}

#[kani::proof_for_contract(ConnectionCounters::dec_established)]
fn contract_dec_established() {
    let mut c = any_counters();
    let e = any_connected_point();
    c.dec_established(&e);
}

/// Derived totals are the sums of the four counters (when representable) and
/// the getters return the fields they name; a fresh counter set is all zero.
#[kani::proof]
fn totals_are_sums() {
    let c = any_counters();
    let s = snap(&c);
    let total = s[0] as u64 + s[1] as u64 + s[2] as u64 + s[3] as u64;
    kani::assume(total <= u32::MAX as u64);
    kani::cover!(total > 3);
    assert!(c.num_pending() == s[PENDING_IN] + s[PENDING_OUT]);
    assert!(c.num_established() == s[EST_IN] + s[EST_OUT]);
    assert!(c.num_connections() as u64 == total);
    assert!(c.num_pending_incoming() == s[PENDING_IN]);
    assert!(c.num_pending_outgoing() == s[PENDING_OUT]);
    assert!(c.num_established_incoming() == s[EST_IN]);
    assert!(c.num_established_outgoing() == s[EST_OUT]);
    assert!(snap(&ConnectionCounters::new()) == [0, 0, 0, 0]);
}

/// Lemma over the contracts (callees replaced by their verified contracts):
/// a pending connection that is established and later closed returns every
/// counter to its starting value, and at each intermediate point the counters
/// equal what the history implies.
#[kani::proof]
#[kani::stub_verified(ConnectionCounters::inc_pending)]
#[kani::stub_verified(ConnectionCounters::dec_pending)]
#[kani::stub_verified(ConnectionCounters::inc_established)]
#[kani::stub_verified(ConnectionCounters::dec_established)]
fn lemma_lifecycle_is_balanced() {
    let mut c = any_counters();
    let s0 = snap(&c);
    let p = any_pending_point();
    let e = any_connected_point();
    kani::assume(can_inc(&c, slot_pending(&p)) && can_inc(&c, slot_established(&e)));
    c.inc_pending(&p);
    assert!(stepped(s0, &c, slot_pending(&p), 1));
    c.dec_pending(&p);
    assert!(snap(&c) == s0);
    c.inc_established(&e);
    assert!(stepped(s0, &c, slot_established(&e), 1));
    c.dec_established(&e);
    assert!(snap(&c) == s0);
}

/// Vacuity canary: must FAIL (claims inc_pending leaves the counter unchanged).
#[kani::proof]
fn canary_inc_is_noop() {
    let mut c = any_counters();
    let s0 = snap(&c);
    let p = any_pending_point();
    kani::assume(can_inc(&c, slot_pending(&p)));
    c.inc_pending(&p);
    assert!(snap(&c) == s0);
}
