// C02 (part 2) — Pool bookkeeping: the statements of Pool::{add_outgoing,
// add_incoming,spawn_connection,poll} that touch `counters`, `pending` and
// `established`, extracted verbatim on every run (K-fragments, DESIGN §2.2) into
// methods of `PoolEnv`, whose fields are exactly the three pieces of Pool state
// the fragments use (maps = dependency shim, shim tree only).
//
// Representation invariant taken from the property statement ("counters equal
// what the history of established-and-not-yet-closed connections implies;
// pending counters equal the number of dials and inbound connections not yet
// resolved; is_connected / connected_peers agree"):
//   inv(s):  counters.pending_outgoing   == #{pending entries with a Dialer endpoint}
//            counters.pending_incoming   == #{pending entries with a Listener endpoint}
//            counters.established_*      == Σ_peers #{connections of that endpoint kind}
//            no peer entry of `established` is empty        (is_connected ⇔ ≥1 connection)
// inv is the conjunction of a pending half and an established half over disjoint
// fields; each fragment touches one half only, so it is run from ANY state of that
// half (≤2 pending entries, resp. ≤2 peers × ≤2 connections) with the other half empty: inv is re-established and the step's own effect
// (which entry appears/disappears, what is returned) is as the statement says.
use crate::verif_shims::SmallMap;
type PendingMap = SmallMap<ConnectionId, PendingConnection, 2>;
type ConnMap = SmallMap<ConnectionId, EstablishedConnection<()>, 2>;
type PeerMap = SmallMap<PeerId, ConnMap, 2>;
include!(concat!(env!("LIBP2P_VERIF"), "/shims/clock.rs"));

pub(crate) struct PoolEnv {
    pub(crate) counters: ConnectionCounters,
    pub(crate) pending: PendingMap,
    pub(crate) established: PeerMap,
    pub(crate) task_command_buffer_size: usize,
    pub(crate) per_connection_event_buffer_size: usize,
}

include!(concat!(env!("LIBP2P_VERIF_GEN"), "/C02/pool_fragments.rs"));

fn peer(b: u8) -> PeerId {
    PeerId::from_multihash(libp2p_core::multihash::Multihash::<64>::wrap(0, &[b]).unwrap()).unwrap()
}
fn cid(x: u8) -> ConnectionId {
    ConnectionId::new_unchecked(x as usize)
}
fn dialer_point() -> ConnectedPoint {
    ConnectedPoint::Dialer { address: Multiaddr::empty(), role_override: Endpoint::Dialer, port_use: PortUse::Reuse }
}
fn listener_point() -> ConnectedPoint {
    ConnectedPoint::Listener { local_addr: Multiaddr::empty(), send_back_addr: Multiaddr::empty() }
}
fn any_connected_point() -> ConnectedPoint {
    if kani::any() { dialer_point() } else { listener_point() }
}
fn any_pending_point() -> PendingPoint {
    if kani::any() {
        PendingPoint::Dialer { role_override: Endpoint::Dialer, port_use: PortUse::Reuse }
    } else {
        PendingPoint::Listener { local_addr: Multiaddr::empty(), send_back_addr: Multiaddr::empty() }
    }
}

/// recount the maps: [pending_in, pending_out, est_in, est_out]
fn recount(s: &PoolEnv) -> [u32; 4] {
    let mut n = [0u32; 4];
    for (_, p) in s.pending.iter() {
        match p.endpoint {
            PendingPoint::Listener { .. } => n[0] += 1,
            PendingPoint::Dialer { .. } => n[1] += 1,
        }
    }
    for (_, conns) in s.established.iter() {
        for (_, c) in conns.iter() {
            match c.endpoint {
                ConnectedPoint::Listener { .. } => n[2] += 1,
                ConnectedPoint::Dialer { .. } => n[3] += 1,
            }
        }
    }
    n
}

fn inv(s: &PoolEnv) -> bool {
    let n = recount(s);
    let c = &s.counters;
    if !(c.pending_incoming == n[0] && c.pending_outgoing == n[1] && c.established_incoming == n[2]
        && c.established_outgoing == n[3])
    {
        return false;
    }
    for (_, conns) in s.established.iter() {
        if conns.is_empty() {
            return false;
        }
    }
    true
}

fn empty_state() -> PoolEnv {
    PoolEnv {
        counters: ConnectionCounters::new(),
        pending: PendingMap::new(),
        established: PeerMap::new(),
        task_command_buffer_size: 1,
        per_connection_event_buffer_size: 1,
    }
}

fn set_counters_to_recount(s: &mut PoolEnv) {
    let n = recount(s);
    s.counters.pending_incoming = n[0];
    s.counters.pending_outgoing = n[1];
    s.counters.established_incoming = n[2];
    s.counters.established_outgoing = n[3];
}

fn dialer_pending() -> PendingConnection {
    PendingConnection {
        peer_id: None,
        endpoint: PendingPoint::Dialer { role_override: Endpoint::Dialer, port_use: PortUse::Reuse },
        abort_notifier: None,
        accepted_at: clock::zero(),
    }
}
fn listener_pending() -> PendingConnection {
    PendingConnection {
        peer_id: None,
        endpoint: PendingPoint::Listener { local_addr: Multiaddr::empty(), send_back_addr: Multiaddr::empty() },
        abort_notifier: None,
        accepted_at: clock::zero(),
    }
}
fn any_pending_entry(id: u8) -> Option<(ConnectionId, PendingConnection)> {
    if kani::any() { Some((cid(id), dialer_pending())) } else { None }
}

/// ANY pending half of a state satisfying inv whose entries are pending DIALS: up to 2
/// entries with distinct ids 0..=3 in arbitrary cells; established side empty.
/// (Measured: symbolic cells holding `PendingPoint::Listener`, i.e. two
/// `Arc`-backed Multiaddrs each, run CBMC out of memory in the drop glue of the
/// removed entry; inbound entries are therefore covered by the `*_inbound_*`
/// obligations below on states with concretely placed cells.)
fn any_pending_state() -> PoolEnv {
    let mut s = empty_state();
    let ids: [u8; 2] = kani::any();
    kani::assume(ids[0] < 4 && ids[1] < 4 && ids[0] != ids[1]);
    s.pending = PendingMap::from_cells([any_pending_entry(ids[0]), any_pending_entry(ids[1])]);
    set_counters_to_recount(&mut s);
    s
}

/// One pending INBOUND connection (id symbolic) next to one pending dial, cells placed
/// concretely in either order.
fn inbound_pending_state(id: u8, other: u8) -> PoolEnv {
    let mut s = empty_state();
    s.pending = if kani::any() {
        PendingMap::from_cells([Some((cid(id), listener_pending())), Some((cid(other), dialer_pending()))])
    } else {
        PendingMap::from_cells([Some((cid(other), dialer_pending())), Some((cid(id), listener_pending()))])
    };
    s.counters.pending_incoming = 1;
    s.counters.pending_outgoing = 1;
    s
}

fn conn(dialer: bool, tx: &mpsc::Sender<task::Command<()>>) -> EstablishedConnection<()> {
    EstablishedConnection { endpoint: if dialer { dialer_point() } else { listener_point() }, sender: tx.clone() }
}

/// Enumerated established states (concrete cells; measured: symbolic cells holding
/// `ConnectedPoint`s — Arc-backed Multiaddrs — and channel senders time out at 1200 s):
/// peer 1 holds `mine` = the connections [4], [4,5] or [5,4] (shape 0,1,2) with the
/// endpoint kind of connection 4 = `dialer` and of connection 5 = !dialer; peer 2 is
/// absent or holds connection 6 (`other_peer`).  Counters = recount (inv).
fn established_case(shape: u8, dialer: bool, other_peer: bool) -> PoolEnv {
    let mut s = empty_state();
    let (tx, rx) = mpsc::channel::<task::Command<()>>(0);
    std::mem::forget(rx);
    let mine = match shape {
        0 => ConnMap::from_cells([Some((cid(4), conn(dialer, &tx))), None]),
        1 => ConnMap::from_cells([Some((cid(4), conn(dialer, &tx))), Some((cid(5), conn(!dialer, &tx)))]),
        _ => ConnMap::from_cells([Some((cid(5), conn(!dialer, &tx))), Some((cid(4), conn(dialer, &tx)))]),
    };
    let theirs = if other_peer {
        Some((peer(2), ConnMap::from_cells([Some((cid(6), conn(true, &tx))), None])))
    } else {
        None
    };
    s.established = if shape == 2 {
        PeerMap::from_cells([theirs, Some((peer(1), mine))])
    } else {
        PeerMap::from_cells([Some((peer(1), mine)), theirs])
    };
    std::mem::forget(tx);
    set_counters_to_recount(&mut s);
    s
}

fn conns_of(s: &PoolEnv, p: &PeerId) -> usize {
    s.established.get(p).map_or(0, |m| m.len())
}

// ---- add_outgoing / add_incoming: a new pending entry, its counter +1 -----------
/// pre-states for the add_* steps: no pending entry, or one pending dial (id symbolic) in
/// either cell.  (Measured: the same steps from `any_pending_state()` need 18.5 GB in CBMC —
/// the inserted entry carries a real oneshot::Sender — which is too close to the 20 GB cap.)
fn add_prestate(shape: u8, other: u8) -> PoolEnv {
    let mut s = empty_state();
    s.pending = match shape {
        0 => PendingMap::from_cells([None, None]),
        1 => PendingMap::from_cells([Some((cid(other), dialer_pending())), None]),
        _ => PendingMap::from_cells([None, Some((cid(other), dialer_pending()))]),
    };
    set_counters_to_recount(&mut s);
    s
}

fn add_outgoing_case(shape: u8, with_target: bool) {
    let id: u8 = kani::any();
    let other: u8 = kani::any();
    kani::assume(id < 4 && other < 4 && id != other);
    let mut s = add_prestate(shape, other);
    assert!(inv(&s));
    let before = recount(&s);
    let (tx, rx) = oneshot::channel::<Infallible>();
    std::mem::forget(rx);
    // the target is concrete per case: a symbolic Option<PeerId> stored into the entry and
    // compared afterwards (64-byte multihash) took CBMC past 19 GB
    let target = if with_target { Some(peer(1)) } else { None };
    s.add_outgoing_tail(cid(id), target, Endpoint::Dialer, PortUse::Reuse, tx);
    assert!(inv(&s));
    let after = recount(&s);
    assert!(after[1] == before[1] + 1 && after[0] == before[0] && after[2] == before[2] && after[3] == before[3]);
    match s.pending.get(&cid(id)) {
        Some(p) => {
            assert!(matches!(p.endpoint, PendingPoint::Dialer { .. }));
            assert!(p.peer_id.is_some() == with_target);
            assert!(p.is_for_same_remote_as(peer(1)) == with_target);
        }
        None => assert!(false),
    }
    assert!(shape == 0 || s.pending.contains_key(&cid(other)));
    std::mem::forget(s);
}

#[kani::proof]
#[kani::unwind(5)]
#[kani::stub(std::time::Instant::now, clock::now)]
fn pool_add_outgoing_registers_one_pending_dial() {
    clock::set(7, 0);
    add_outgoing_case(0, true);
    add_outgoing_case(1, false);
    add_outgoing_case(2, true);
}

fn add_incoming_case(shape: u8) {
    let id: u8 = kani::any();
    let other: u8 = kani::any();
    kani::assume(id < 4 && other < 4 && id != other);
    let mut s = add_prestate(shape, other);
    let before = recount(&s);
    let (tx, rx) = oneshot::channel::<Infallible>();
    std::mem::forget(rx);
    s.add_incoming_tail(cid(id), listener_point(), tx);
    assert!(inv(&s));
    let after = recount(&s);
    assert!(after[0] == before[0] + 1 && after[1] == before[1] && after[2] == before[2] && after[3] == before[3]);
    match s.pending.get(&cid(id)) {
        Some(p) => {
            assert!(matches!(p.endpoint, PendingPoint::Listener { .. }));
            assert!(p.peer_id.is_none());
        }
        None => assert!(false),
    }
    assert!(shape == 0 || s.pending.contains_key(&cid(other)));
    std::mem::forget(s);
}

#[kani::proof]
#[kani::unwind(5)]
#[kani::stub(std::time::Instant::now, clock::now)]
fn pool_add_incoming_registers_one_pending_inbound() {
    clock::set(7, 0);
    add_incoming_case(0);
    add_incoming_case(1);
    add_incoming_case(2);
}

// ---- a pending connection resolves (established or failed): entry gone, its counter -1 ----
#[kani::proof]
#[kani::unwind(5)]
fn pool_pending_resolved_established() {
    let mut s = any_pending_state();
    let id: u8 = kani::any();
    kani::assume(id < 4 && s.pending.contains_key(&cid(id)));
    let was_dialer = matches!(s.pending.get(&cid(id)).unwrap().endpoint, PendingPoint::Dialer { .. });
    let before = recount(&s);
    let (_expected, endpoint, _at) = s.pending_established_head(cid(id));
    assert!(matches!(endpoint, PendingPoint::Dialer { .. }) == was_dialer);
    assert!(!s.pending.contains_key(&cid(id)));
    assert!(inv(&s));
    let after = recount(&s);
    let slot = if was_dialer { 1 } else { 0 };
    assert!(after[slot] + 1 == before[slot] && after[1 - slot] == before[1 - slot]);
    assert!(after[2] == before[2] && after[3] == before[3]);
    std::mem::forget((s, endpoint));
}

#[kani::proof]
#[kani::unwind(5)]
fn pool_pending_resolved_failed() {
    let mut s = any_pending_state();
    let id: u8 = kani::any();
    kani::assume(id < 4);
    let present = s.pending.contains_key(&cid(id));
    let before = recount(&s);
    let r = s.pending_failed_head(cid(id));
    assert!(r.is_some() == present);
    assert!(!s.pending.contains_key(&cid(id)));
    assert!(inv(&s));
    let after = recount(&s);
    if !present {
        assert!(after[0] == before[0] && after[1] == before[1] && after[2] == before[2] && after[3] == before[3]);
    } else {
        assert!(after[0] + after[1] + 1 == before[0] + before[1]);
        assert!(after[2] == before[2] && after[3] == before[3]);
    }
    std::mem::forget((s, r));
}

#[kani::proof]
#[kani::unwind(5)]
fn pool_pending_inbound_resolved_established() {
    let id: u8 = kani::any();
    let other: u8 = kani::any();
    kani::assume(id < 4 && other < 4 && id != other);
    let mut s = inbound_pending_state(id, other);
    assert!(inv(&s));
    let (_expected, endpoint, _at) = s.pending_established_head(cid(id));
    assert!(matches!(endpoint, PendingPoint::Listener { .. }));
    assert!(!s.pending.contains_key(&cid(id)) && s.pending.contains_key(&cid(other)));
    assert!(s.counters.pending_incoming == 0 && s.counters.pending_outgoing == 1);
    assert!(inv(&s));
    std::mem::forget((s, endpoint));
}

#[kani::proof]
#[kani::unwind(5)]
fn pool_pending_inbound_resolved_failed() {
    let id: u8 = kani::any();
    let other: u8 = kani::any();
    kani::assume(id < 4 && other < 4 && id != other);
    let mut s = inbound_pending_state(id, other);
    let r = s.pending_failed_head(cid(id));
    assert!(r.is_some());
    assert!(!s.pending.contains_key(&cid(id)) && s.pending.contains_key(&cid(other)));
    assert!(s.counters.pending_incoming == 0 && s.counters.pending_outgoing == 1);
    assert!(inv(&s));
    std::mem::forget((s, r));
}

// ---- spawn_connection: the peer gains exactly this connection, its counter +1 ------
fn spawn_case(shape: u8, dialer: bool, other_peer: bool, to_new_peer: bool, new_is_dialer: bool) {
    // shape 0 only (peer 1 has one connection: room for one more in the 2-cell map)
    let mut s = established_case(shape, dialer, other_peer);
    assert!(inv(&s));
    let target = if to_new_peer { peer(3) } else { peer(1) };
    if to_new_peer && other_peer {
        return; // both peer cells taken: outside the stated capacity
    }
    let before = recount(&s);
    let n_before = conns_of(&s, &target);
    let ep = if new_is_dialer { dialer_point() } else { listener_point() };
    s.spawn_connection_head(cid(7), target, &ep);
    assert!(inv(&s));
    let after = recount(&s);
    let slot = if new_is_dialer { 3 } else { 2 };
    assert!(after[slot] == before[slot] + 1 && after[5 - slot] == before[5 - slot]);
    assert!(after[0] == before[0] && after[1] == before[1]);
    assert!(s.is_connected(target));
    assert!(conns_of(&s, &target) == n_before + 1);
    assert!(s.established.get(&target).unwrap().contains_key(&cid(7)));
    if other_peer {
        assert!(conns_of(&s, &peer(2)) == 1);
    }
    std::mem::forget((s, ep));
}

#[kani::proof]
#[kani::unwind(5)]
fn pool_spawn_connection_registers_established() {
    spawn_case(0, true, false, false, true);
    spawn_case(0, false, true, false, false);
    spawn_case(0, true, false, true, false);
    spawn_case(0, false, false, true, true);
}

// ---- Closed: the connection disappears, counter -1, `remaining` is exactly what is left,
//      and the peer stops being "connected" exactly when nothing is left ---------------
fn closed_case(shape: u8, dialer: bool, other_peer: bool) {
    let mut s = established_case(shape, dialer, other_peer);
    assert!(inv(&s));
    let before = recount(&s);
    let n_before = conns_of(&s, &peer(1));
    let peers_before = s.num_peers();
    let (endpoint, remaining) = s.closed_arm(cid(4), peer(1));
    assert!(matches!(endpoint, ConnectedPoint::Dialer { .. }) == dialer);
    assert!(inv(&s));
    let after = recount(&s);
    let slot = if dialer { 3 } else { 2 };
    assert!(after[slot] + 1 == before[slot] && after[5 - slot] == before[5 - slot]);
    assert!(after[0] == before[0] && after[1] == before[1]);
    // remaining_established_connection_ids == the peer's connections that are still open
    assert!(remaining.len() == n_before - 1);
    assert!(remaining.len() == conns_of(&s, &peer(1)));
    if n_before == 2 {
        assert!(remaining[0] == cid(5));
    }
    // is_connected / num_peers follow
    assert!(s.is_connected(peer(1)) == (n_before > 1));
    assert!(s.num_peers() == if n_before > 1 { peers_before } else { peers_before - 1 });
    assert!(s.is_connected(peer(2)) == other_peer);
    std::mem::forget((s, remaining, endpoint));
}

#[kani::proof]
#[kani::unwind(5)]
fn pool_connection_closed_last_connection() {
    closed_case(0, true, false);
    closed_case(0, false, true);
}

#[kani::proof]
#[kani::unwind(5)]
fn pool_connection_closed_one_of_two() {
    closed_case(1, true, true);
    closed_case(2, false, false);
}

// ---- views used by Swarm::is_connected / connected_peers / num_established ------------
#[kani::proof]
#[kani::unwind(5)]
fn pool_views_agree_with_established_map() {
    let shape: u8 = kani::any();
    kani::assume(shape <= 2);
    let other_peer: bool = kani::any();
    let mut s = established_case(shape, kani::any(), other_peer);
    let n1 = if shape == 0 { 1 } else { 2 };
    assert!(s.is_connected(peer(1)));
    assert!(s.is_connected(peer(2)) == other_peer);
    assert!(!s.is_connected(peer(3)));
    assert!(s.iter_established_connections_of_peer(&peer(1)).count() == n1);
    assert!(s.iter_established_connections_of_peer(&peer(3)).count() == 0);
    let peers = if other_peer { 2 } else { 1 };
    assert!(s.num_peers() == peers);
    assert!(s.iter_connected().count() == peers);
    std::mem::forget(s);
}

/// Vacuity canary: must FAIL (closing a connection would leave the counters alone).
#[kani::proof]
#[kani::unwind(5)]
fn canary_closed_keeps_counters() {
    let mut s = established_case(0, true, false);
    let before = recount(&s);
    let (e, r) = s.closed_arm(cid(4), peer(1));
    assert!(snap_eq(&s, before));
    std::mem::forget((s, e, r));
}
fn snap_eq(s: &PoolEnv, b: [u32; 4]) -> bool {
    let c = &s.counters;
    c.pending_incoming == b[0] && c.pending_outgoing == b[1] && c.established_incoming == b[2] && c.established_outgoing == b[3]
}
