// C02 (part 2) — Pool bookkeeping: the statements of Pool::{add_outgoing,
// add_incoming,spawn_connection,poll} that touch `counters`, `pending` and
// `established`, extracted verbatim on every run (K-fragments, DESIGN §2.2) into
// methods of `PoolEnv`, whose fields are exactly the three pieces of Pool state
// the fragments use (maps = dependency shim, shim tree only).
//
// Representation invariant taken from the property statement ("counters equal
// what the history of established-and-not-yet-closed connections implies;
// pending counters equal the number of dials and inbound connections not yet
// resolved; is_connected / connected_peers agree"):
//   inv(s):  counters.pending_outgoing   == #{pending entries with a Dialer endpoint}
//            counters.pending_incoming   == #{pending entries with a Listener endpoint}
//            counters.established_*      == Σ_peers #{connections of that endpoint kind}
//            no peer entry of `established` is empty        (is_connected ⇔ ≥1 connection)
// inv is the conjunction of a pending half and an established half over disjoint
// fields; each fragment touches one half only, so it is run from ANY state of that
// half (≤2 pending entries, resp. ≤2 peers × ≤2 connections) with the other half empty: inv is re-established and the step's own effect
// (which entry appears/disappears, what is returned) is as the statement says.
use crate::verif_shims::SmallMap;
type PendingMap = SmallMap<ConnectionId, PendingConnection, 2>;
type ConnMap = SmallMap<ConnectionId, EstablishedConnection<()>, 2>;
type PeerMap = SmallMap<PeerId, ConnMap, 2>;
include!(concat!(env!("LIBP2P_VERIF"), "/shims/clock.rs"));

pub(crate) struct PoolEnv {
    pub(crate) counters: ConnectionCounters,
    pub(crate) pending: PendingMap,
    pub(crate) established: PeerMap,
    pub(crate) task_command_buffer_size: usize,
    pub(crate) per_connection_event_buffer_size: usize,
}

include!(concat!(env!("LIBP2P_VERIF_GEN"), "/C02/pool_fragments.rs"));

fn peer(b: u8) -> PeerId {
    PeerId::from_multihash(libp2p_core::multihash::Multihash::<64>::wrap(0, &[b]).unwrap()).unwrap()
}
fn cid(x: u8) -> ConnectionId {
    ConnectionId::new_unchecked(x as usize)
}
fn dialer_point() -> ConnectedPoint {
    ConnectedPoint::Dialer { address: Multiaddr::empty(), role_override: Endpoint::Dialer, port_use: PortUse::Reuse }
}
fn listener_point() -> ConnectedPoint {
    ConnectedPoint::Listener { local_addr: Multiaddr::empty(), send_back_addr: Multiaddr::empty() }
}
fn any_connected_point() -> ConnectedPoint {
    if kani::any() { dialer_point() } else { listener_point() }
}
fn any_pending_point() -> PendingPoint {
    if kani::any() {
        PendingPoint::Dialer { role_override: Endpoint::Dialer, port_use: PortUse::Reuse }
    } else {
        PendingPoint::Listener { local_addr: Multiaddr::empty(), send_back_addr: Multiaddr::empty() }
    }
}

/// recount the maps: [pending_in, pending_out, est_in, est_out]
fn recount(s: &PoolEnv) -> [u32; 4] {
    let mut n = [0u32; 4];
    for (_, p) in s.pending.iter() {
        match p.endpoint {
            PendingPoint::Listener { .. } => n[0] += 1,
            PendingPoint::Dialer { .. } => n[1] += 1,
        }
    }
    for (_, conns) in s.established.iter() {
        for (_, c) in conns.iter() {
            match c.endpoint {
                ConnectedPoint::Listener { .. } => n[2] += 1,
                ConnectedPoint::Dialer { .. } => n[3] += 1,
            }
        }
    }
    n
}

fn inv(s: &PoolEnv) -> bool {
    let n = recount(s);
    let c = &s.counters;
    if !(c.pending_incoming == n[0] && c.pending_outgoing == n[1] && c.established_incoming == n[2]
        && c.established_outgoing == n[3])
    {
        return false;
    }
    for (_, conns) in s.established.iter() {
        if conns.is_empty() {
            return false;
        }
    }
    true
}

fn empty_state() -> PoolEnv {
    PoolEnv {
        counters: ConnectionCounters::new(),
        pending: PendingMap::new(),
        established: PeerMap::new(),
        task_command_buffer_size: 1,
        per_connection_event_buffer_size: 1,
    }
}

fn set_counters_to_recount(s: &mut PoolEnv) {
    let n = recount(s);
    s.counters.pending_incoming = n[0];
    s.counters.pending_outgoing = n[1];
    s.counters.established_incoming = n[2];
    s.counters.established_outgoing = n[3];
}

fn any_pending_entry(id: u8) -> Option<(ConnectionId, PendingConnection)> {
    if kani::any() {
        Some((cid(id), PendingConnection { peer_id: None, endpoint: any_pending_point(), abort_notifier: None, accepted_at: clock::zero() }))
    } else {
        None
    }
}

/// ANY pending half of a state satisfying inv: up to 2 pending entries with pairwise
/// distinct ids 0..=3 in arbitrary cells, endpoints arbitrary; established side empty.
/// `peer_id` of pre-existing entries is None (no fragment reads it).
fn any_pending_state() -> PoolEnv {
    let mut s = empty_state();
    let ids: [u8; 2] = kani::any();
    kani::assume(ids[0] < 4 && ids[1] < 4 && ids[0] != ids[1]);
    s.pending = PendingMap::from_cells([any_pending_entry(ids[0]), any_pending_entry(ids[1])]);
    set_counters_to_recount(&mut s);
    s
}

fn any_conn(id: u8, tx: &mpsc::Sender<task::Command<()>>) -> Option<(ConnectionId, EstablishedConnection<()>)> {
    if kani::any() {
        Some((cid(id), EstablishedConnection { endpoint: any_connected_point(), sender: tx.clone() }))
    } else {
        None
    }
}

/// ANY established half of a state satisfying inv: up to 2 peers (from {1,2}, in
/// arbitrary cells), each with 1 or 2 connections (ids 4..=7 pairwise distinct, in
/// arbitrary cells), endpoints arbitrary; pending side empty.  All command senders
/// are clones of one channel's sender (the fragments never send).
fn any_established_state() -> PoolEnv {
    let mut s = empty_state();
    let (tx, rx) = mpsc::channel::<task::Command<()>>(0);
    std::mem::forget(rx);
    let ids: [u8; 4] = kani::any();
    kani::assume(ids[0] >= 4 && ids[0] < 8 && ids[1] >= 4 && ids[1] < 8 && ids[2] >= 4 && ids[2] < 8 && ids[3] >= 4 && ids[3] < 8);
    kani::assume(ids[0] != ids[1] && ids[0] != ids[2] && ids[0] != ids[3] && ids[1] != ids[2] && ids[1] != ids[3] && ids[2] != ids[3]);
    let first: u8 = kani::any();
    kani::assume(first == 1 || first == 2);
    let a = ConnMap::from_cells([any_conn(ids[0], &tx), any_conn(ids[1], &tx)]);
    let b = ConnMap::from_cells([any_conn(ids[2], &tx), any_conn(ids[3], &tx)]);
    // inv: a peer entry exists only if it has at least one connection
    let cell_a = if a.is_empty() { std::mem::forget(a); None } else { Some((peer(first), a)) };
    let cell_b = if b.is_empty() { std::mem::forget(b); None } else { Some((peer(3 - first), b)) };
    s.established = PeerMap::from_cells([cell_a, cell_b]);
    std::mem::forget(tx);
    set_counters_to_recount(&mut s);
    s
}

fn conns_of(s: &PoolEnv, p: &PeerId) -> usize {
    s.established.get(p).map_or(0, |m| m.len())
}

// ---- add_outgoing / add_incoming: a new pending entry, its counter +1 -----------
#[kani::proof]
#[kani::unwind(5)]
#[kani::stub(std::time::Instant::now, clock::now)]
fn pool_add_outgoing_registers_one_pending_dial() {
    let mut s = any_pending_state();
    assert!(inv(&s));
    let id: u8 = kani::any();
    kani::assume(id < 4 && !s.pending.contains_key(&cid(id)) && s.pending.len() < 2);
    let before = recount(&s);
    let (tx, rx) = oneshot::channel::<Infallible>();
    std::mem::forget(rx);
    let target = if kani::any() { Some(peer(1)) } else { None };
    s.add_outgoing_tail(cid(id), target, Endpoint::Dialer, PortUse::Reuse, tx);
    assert!(inv(&s));
    let after = recount(&s);
    assert!(after[1] == before[1] + 1 && after[0] == before[0] && after[2] == before[2] && after[3] == before[3]);
    match s.pending.get(&cid(id)) {
        Some(p) => {
            assert!(matches!(p.endpoint, PendingPoint::Dialer { .. }));
            assert!(p.peer_id == target);
        }
        None => assert!(false),
    }
    std::mem::forget(s);
}

#[kani::proof]
#[kani::unwind(5)]
#[kani::stub(std::time::Instant::now, clock::now)]
fn pool_add_incoming_registers_one_pending_inbound() {
    let mut s = any_pending_state();
    let id: u8 = kani::any();
    kani::assume(id < 4 && !s.pending.contains_key(&cid(id)) && s.pending.len() < 2);
    let before = recount(&s);
    let (tx, rx) = oneshot::channel::<Infallible>();
    std::mem::forget(rx);
    s.add_incoming_tail(cid(id), listener_point(), tx);
    assert!(inv(&s));
    let after = recount(&s);
    assert!(after[0] == before[0] + 1 && after[1] == before[1] && after[2] == before[2] && after[3] == before[3]);
    match s.pending.get(&cid(id)) {
        Some(p) => {
            assert!(matches!(p.endpoint, PendingPoint::Listener { .. }));
            assert!(p.peer_id.is_none());
        }
        None => assert!(false),
    }
    std::mem::forget(s);
}

// ---- a pending connection resolves (established or failed): entry gone, its counter -1 ----
#[kani::proof]
#[kani::unwind(5)]
fn pool_pending_resolved_established() {
    let mut s = any_pending_state();
    let id: u8 = kani::any();
    kani::assume(id < 4 && s.pending.contains_key(&cid(id)));
    let was_dialer = matches!(s.pending.get(&cid(id)).unwrap().endpoint, PendingPoint::Dialer { .. });
    let before = recount(&s);
    let (_expected, endpoint, _at) = s.pending_established_head(cid(id));
    assert!(matches!(endpoint, PendingPoint::Dialer { .. }) == was_dialer);
    assert!(!s.pending.contains_key(&cid(id)));
    assert!(inv(&s));
    let after = recount(&s);
    let slot = if was_dialer { 1 } else { 0 };
    assert!(after[slot] + 1 == before[slot] && after[1 - slot] == before[1 - slot]);
    assert!(after[2] == before[2] && after[3] == before[3]);
    std::mem::forget(s);
}

#[kani::proof]
#[kani::unwind(5)]
fn pool_pending_resolved_failed() {
    let mut s = any_pending_state();
    let id: u8 = kani::any();
    kani::assume(id < 4);
    let present = s.pending.contains_key(&cid(id));
    let before = recount(&s);
    let r = s.pending_failed_head(cid(id));
    assert!(r.is_some() == present);
    assert!(!s.pending.contains_key(&cid(id)));
    assert!(inv(&s));
    let after = recount(&s);
    if !present {
        assert!(after == before);
    } else {
        assert!(after[0] + after[1] + 1 == before[0] + before[1]);
        assert!(after[2] == before[2] && after[3] == before[3]);
    }
    std::mem::forget(s);
}

// ---- spawn_connection: the peer gains exactly this connection, its counter +1 ------
#[kani::proof]
#[kani::unwind(5)]
fn pool_spawn_connection_registers_established() {
    let mut s = any_established_state();
    let id: u8 = kani::any();
    kani::assume(id >= 4 && id < 8);
    kani::assume(!s.established.iter().any(|(_, m)| m.contains_key(&cid(id))));
    let pb: u8 = kani::any();
    kani::assume(pb == 1 || pb == 2);
    kani::assume(conns_of(&s, &peer(pb)) < 2);
    let before = recount(&s);
    let n_before = conns_of(&s, &peer(pb));
    let other = peer(3 - pb);
    let other_before = conns_of(&s, &other);
    let ep = any_connected_point();
    let is_dialer = matches!(ep, ConnectedPoint::Dialer { .. });
    s.spawn_connection_head(cid(id), peer(pb), &ep);
    assert!(inv(&s));
    let after = recount(&s);
    let slot = if is_dialer { 3 } else { 2 };
    assert!(after[slot] == before[slot] + 1 && after[5 - slot] == before[5 - slot]);
    assert!(after[0] == before[0] && after[1] == before[1]);
    // views: the peer is connected, has one more connection, the other peer is untouched
    assert!(s.is_connected(peer(pb)));
    assert!(conns_of(&s, &peer(pb)) == n_before + 1);
    assert!(s.established.get(&peer(pb)).unwrap().contains_key(&cid(id)));
    assert!(conns_of(&s, &other) == other_before);
    std::mem::forget(s);
}

// ---- Closed: the connection disappears, counter -1, `remaining` is exactly what is left,
//      and the peer stops being "connected" exactly when nothing is left ---------------
#[kani::proof]
#[kani::unwind(5)]
fn pool_connection_closed_bookkeeping() {
    let mut s = any_established_state();
    let id: u8 = kani::any();
    kani::assume(id >= 4 && id < 8);
    let pb: u8 = kani::any();
    kani::assume(pb == 1 || pb == 2);
    kani::assume(s.established.get(&peer(pb)).map_or(false, |m| m.contains_key(&cid(id))));
    let was_dialer = matches!(s.established.get(&peer(pb)).unwrap().get(&cid(id)).unwrap().endpoint, ConnectedPoint::Dialer { .. });
    let before = recount(&s);
    let n_before = conns_of(&s, &peer(pb));
    let peers_before = s.num_peers();
    let other = peer(3 - pb);
    let other_before = conns_of(&s, &other);
    let (endpoint, remaining) = s.closed_arm(cid(id), peer(pb));
    assert!(matches!(endpoint, ConnectedPoint::Dialer { .. }) == was_dialer);
    assert!(inv(&s));
    let after = recount(&s);
    let slot = if was_dialer { 3 } else { 2 };
    assert!(after[slot] + 1 == before[slot] && after[5 - slot] == before[5 - slot]);
    assert!(after[0] == before[0] && after[1] == before[1]);
    // remaining_established_connection_ids == the peer's connections that are still open
    assert!(remaining.len() == n_before - 1);
    assert!(remaining.len() == conns_of(&s, &peer(pb)));
    assert!(!remaining.contains(&cid(id)));
    for r in remaining.iter() {
        assert!(s.established.get(&peer(pb)).unwrap().contains_key(r));
    }
    // is_connected / num_peers follow
    assert!(s.is_connected(peer(pb)) == (n_before > 1));
    assert!(s.num_peers() == if n_before > 1 { peers_before } else { peers_before - 1 });
    assert!(conns_of(&s, &other) == other_before);
    std::mem::forget(s);
    std::mem::forget(remaining);
}

// ---- views used by Swarm::is_connected / connected_peers / num_established ------------
#[kani::proof]
#[kani::unwind(5)]
fn pool_views_agree_with_established_map() {
    let mut s = any_established_state();
    let pb: u8 = kani::any();
    kani::assume(pb == 1 || pb == 2);
    let n = conns_of(&s, &peer(pb));
    assert!(s.is_connected(peer(pb)) == (n > 0));
    let listed = s.iter_established_connections_of_peer(&peer(pb)).count();
    assert!(listed == n);
    let mut peers = 0;
    if conns_of(&s, &peer(1)) > 0 { peers += 1; }
    if conns_of(&s, &peer(2)) > 0 { peers += 1; }
    assert!(s.num_peers() == peers);
    assert!(s.iter_connected().count() == peers);
    std::mem::forget(s);
}

/// Vacuity canary: must FAIL (closing a connection would leave the counters alone).
#[kani::proof]
#[kani::unwind(5)]
fn canary_closed_keeps_counters() {
    let mut s = any_established_state();
    let id: u8 = kani::any();
    kani::assume(id >= 4 && id < 8);
    kani::assume(s.established.get(&peer(1)).map_or(false, |m| m.contains_key(&cid(id))));
    let before = recount(&s);
    let (e, r) = s.closed_arm(cid(id), peer(1));
    assert!(snap_eq(&s, before));
    std::mem::forget((s, e, r));
}
fn snap_eq(s: &PoolEnv, b: [u32; 4]) -> bool {
    let c = &s.counters;
    [c.pending_incoming, c.pending_outgoing, c.established_incoming, c.established_outgoing] == b
}

// ---- diagnostics (dev only, not registered) ----
#[kani::proof]
#[kani::unwind(5)]
fn diag_empty() {
    let mut s = empty_state();
    let r = s.pending_failed_head(cid(1));
    assert!(r.is_none());
    std::mem::forget(s);
}
#[kani::proof]
#[kani::unwind(5)]
fn diag_one_dialer() {
    let mut s = empty_state();
    s.pending = PendingMap::from_cells([
        Some((cid(1), PendingConnection { peer_id: None, endpoint: PendingPoint::Dialer { role_override: Endpoint::Dialer, port_use: PortUse::Reuse }, abort_notifier: None, accepted_at: clock::zero() })),
        None,
    ]);
    s.counters.pending_outgoing = 1;
    let r = s.pending_failed_head(cid(1));
    assert!(r.is_some());
    assert!(s.counters.pending_outgoing == 0);
    std::mem::forget((s, r));
}
#[kani::proof]
#[kani::unwind(5)]
fn diag_sym_dialers() {
    let mut s = empty_state();
    let id: u8 = kani::any();
    kani::assume(id < 4);
    let mk = |i: u8| if kani::any() { Some((cid(i), PendingConnection { peer_id: None, endpoint: PendingPoint::Dialer { role_override: Endpoint::Dialer, port_use: PortUse::Reuse }, abort_notifier: None, accepted_at: clock::zero() })) } else { None };
    s.pending = PendingMap::from_cells([mk(0), mk(1)]);
    set_counters_to_recount(&mut s);
    let had = s.pending.contains_key(&cid(id));
    let r = s.pending_failed_head(cid(id));
    assert!(r.is_some() == had);
    assert!(inv(&s));
    std::mem::forget((s, r));
}
