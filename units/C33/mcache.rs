// C33 — message cache (mcache.rs): gossip only offers VALIDATED messages of the last
// `history_gossip` heartbeats; IWANT is served only for validated messages still within
// `history_length` heartbeats; IWANT requests are counted per (message, peer) exactly.
//
// Code under check: the VERBATIM text of `struct CacheEntry`, `struct MessageCache` and
// the whole `impl MessageCache` (extracted item by item on every run, unit.json
// `fragments`), compiled in this module against DECLARED stand-ins:
//   * MessageId, TopicHash, PeerId: one-byte newtypes with the derives the cache uses
//     (Clone / Eq / Hash; PeerId is Copy) -- the real ones are Vec<u8> / String / multihash;
//   * RawMessage: the two fields the cache reads (`topic`, `validated`) plus one payload byte;
//   * HashMap / HashSet / hash_map::Entry: the dependency shims (CAP 4).
// (The real MessageCache could not be retargeted: it hands HashSet<PeerId> values to
// behaviour.rs.)  BOUNDED scenario check, not an inductive contract: history_length = 2,
// history_gossip = 1, one message with a symbolic topic out of 2 and a symbolic `validated`
// flag (optionally validated after the put), followed through one resp. two shifts.
// (Measured: the longer two-message scenario of the draft timed out at 900 s.)
include!(concat!(env!("LIBP2P_VERIF"), "/shims/tracing_off.rs"));

#[allow(unused_imports)]
use crate::verif_shims::{HashMap, HashSet, hash_map::Entry};
#[allow(unused_imports)]
use std::{fmt, fmt::Debug};

#[derive(Debug, Clone, PartialEq, Eq, Hash)]
pub(crate) struct MessageId(pub(crate) u8);
#[derive(Debug, Clone, PartialEq, Eq, Hash)]
pub(crate) struct TopicHash(pub(crate) u8);
#[derive(Debug, Clone, Copy, PartialEq, Eq, Hash)]
pub(crate) struct PeerId(pub(crate) u8);
#[derive(Debug, Clone, PartialEq, Eq, Hash)]
pub(crate) struct RawMessage {
    pub(crate) topic: TopicHash,
    pub(crate) validated: bool,
    pub(crate) data: u8,
}

include!(concat!(env!("LIBP2P_VERIF_GEN"), "/C33/mcache_fragment.rs"));

fn any_topic() -> TopicHash {
    TopicHash(if kani::any() { 0 } else { 1 })
}
fn raw(topic: &TopicHash, validated: bool) -> RawMessage {
    RawMessage { topic: topic.clone(), validated, data: kani::any() }
}

fn offered(v: &Vec<MessageId>, m: &MessageId) -> bool {
    let mut i = 0;
    let mut f = false;
    while i < v.len() && i < 3 {
        if v[i] == *m {
            f = true;
        }
        i += 1;
    }
    f
}

/// gossip window: only validated messages of the asked topic, only for history_gossip heartbeats
tracing_off! {
#[kani::proof]
#[kani::unwind(6)]
fn mcache_gossip_window() {
    let t0 = any_topic();
    let probe = any_topic();
    let v0: bool = kani::any();
    let m0 = MessageId(0);
    let mut c = MessageCache::new(1, 2);
    assert!(c.put(&m0, raw(&t0, v0)));
    assert!(!c.put(&m0, raw(&t0, v0)), "a duplicate put was accepted");
    let validate_now: bool = kani::any();
    if validate_now {
        let r = c.validate(&m0);
        assert!(r.is_some());
        std::mem::forget(r);
    }
    let val0 = v0 || validate_now;
    let g = c.get_gossip_message_ids(&probe);
    assert!(offered(&g, &m0) == (val0 && probe == t0), "gossip offer differs from: validated and of the asked topic");
    assert!(g.len() == (val0 && probe == t0) as usize);
    std::mem::forget(g);
    // one heartbeat later the message has left the gossip window (history_gossip = 1)
    c.shift();
    let g = c.get_gossip_message_ids(&probe);
    assert!(g.is_empty(), "a message older than history_gossip heartbeats was offered for gossip");
    std::mem::forget(g);
    std::mem::forget((c, m0));
}
}

/// IWANT window and counts: served only if validated, only for history_length heartbeats, counted exactly
tracing_off! {
#[kani::proof]
#[kani::unwind(6)]
fn mcache_iwant_window_and_counts() {
    let t0 = any_topic();
    let (peer, peer2) = (PeerId(7), PeerId(8));
    let v0: bool = kani::any();
    let m0 = MessageId(0);
    let mut c = MessageCache::new(1, 2);
    assert!(c.put(&m0, raw(&t0, v0)));
    let r1 = c.get_with_iwant_counts(&m0, &peer).map(|(_, n)| n);
    let r2 = c.get_with_iwant_counts(&m0, &peer).map(|(_, n)| n);
    let r3 = c.get_with_iwant_counts(&m0, &peer2).map(|(_, n)| n);
    if v0 {
        assert!(r1 == Some(1) && r2 == Some(2) && r3 == Some(1), "IWANT counts are not exact per (message, peer)");
    } else {
        assert!(r1.is_none() && r2.is_none() && r3.is_none(), "an unvalidated message was served for IWANT");
    }
    // heartbeat 1: still within history_length = 2
    c.shift();
    let r4 = c.get_with_iwant_counts(&m0, &peer).map(|(_, n)| n);
    assert!(r4 == if v0 { Some(3) } else { None });
    // heartbeat 2: older than history_length heartbeats: gone, with its counts
    c.shift();
    assert!(c.get_with_iwant_counts(&m0, &peer).is_none(), "a message older than history_length heartbeats was served for IWANT");
    assert!(!c.msgs.contains_key(&m0) && !c.iwant_counts.contains_key(&m0));
    std::mem::forget((c, m0));
}
}

/// Vacuity canary: must FAIL (unvalidated messages are not served).
tracing_off! {
#[kani::proof]
#[kani::unwind(6)]
fn canary_mcache_serves_unvalidated() {
    let t = any_topic();
    let m0 = MessageId(0);
    let mut c = MessageCache::new(1, 2);
    c.put(&m0, raw(&t, kani::any()));
    assert!(c.get_with_iwant_counts(&m0, &PeerId(7)).is_some());
    std::mem::forget((c, m0));
}
}
