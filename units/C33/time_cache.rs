// C33 — duplicate cache (TimeCache): an id is reported as seen from its FIRST
// insertion until its ttl has passed, and is not refreshed by re-insertion.
// FnvHashMap and VecDeque -> dependency shims (retargeted imports); keys are u8 (the
// cache is generic in the key).
// Representation invariant wf: the map entries and the list elements are in
// bijection (same key, same expiry), the list is sorted by expiry, and every
// expiry is at most now + ttl (entries were inserted in the past).
// One step from ANY wf state with <= 2 entries, any ttl, any monotone clock value.
include!(concat!(env!("LIBP2P_VERIF"), "/shims/clock.rs"));
include!(concat!(env!("LIBP2P_VERIF"), "/shims/tracing_off.rs"));

const HORIZON: u64 = 1 << 40;

struct St {
    cache: DuplicateCache<u8>,
    n: usize,
    k: [u8; 2],
    e: [(u64, u32); 2],
}

/// any wf state with exactly `n` (a CONCRETE number, 0..=2) cached ids
fn any_state(n: usize, now: (u64, u32), ttl: Duration) -> St {
    any_state_g(n, now, ttl, false)
}

/// `whole_secs` (a CONCRETE flag): expiries are whole seconds, so every Duration::new
/// below has a constant nanosecond part (no div/mod circuits for the solver)
fn any_state_g(n: usize, now: (u64, u32), ttl: Duration, whole_secs: bool) -> St {
    // built field by field: assigning a pre-sized VecDeque over the one made by new() drops
    // the empty one, which Kani 0.68 reports as a bogus dealloc failure
    let mut c: DuplicateCache<u8> = DuplicateCache(TimeCache {
        map: FnvHashMap::default(),
        list: VecDeque::with_capacity(4),
        ttl,
    });
    let k: [u8; 2] = kani::any();
    kani::assume(k[0] != k[1]);
    let mut e = [(0u64, 0u32); 2];
    let mut i = 0;
    while i < 2 {
        if i < n {
            let (s, ns, inst) = if whole_secs {
                let s: u64 = kani::any();
                kani::assume(s <= HORIZON);
                (s, 0u32, clock::at(s, 0))
            } else {
                clock::any_instant(HORIZON)
            };
            e[i] = (s, ns);
            // inserted in the past: expiry <= now + ttl
            kani::assume(Duration::new(s, ns) <= Duration::new(now.0, now.1) + ttl);
            if i == 1 {
                kani::assume(e[0] <= e[1]); // sorted by expiry
            }
            c.0.map.insert(k[i], ExpiringElement { element: (), expires: inst });
            c.0.list.push_back(ExpiringElement { element: k[i], expires: inst });
        }
        i += 1;
    }
    St { cache: c, n, k, e }
}

fn expiry_of(c: &DuplicateCache<u8>, key: u8) -> Option<(u64, u32)> {
    c.0.map.get(&key).map(|x| {
        let d = x.expires.duration_since(clock::zero());
        (d.as_secs(), d.subsec_nanos())
    })
}

fn wf(c: &DuplicateCache<u8>) -> bool {
    if c.0.map.len() != c.0.list.len() {
        return false;
    }
    let mut prev: Option<Instant> = None;
    for el in c.0.list.iter() {
        match c.0.map.get(&el.element) {
            Some(m) if m.expires == el.expires => {}
            _ => return false,
        }
        if let Some(p) = prev {
            if p > el.expires {
                return false;
            }
        }
        prev = Some(el.expires);
    }
    true
}

fn insert_contract(n: usize) {
    // whole seconds throughout (clock, expiries, ttl): stated in the bound
    let now_s: u64 = kani::any();
    kani::assume(now_s <= HORIZON);
    clock::set(now_s, 0);
    let now = (now_s, 0u32);
    let ttl_s: u64 = kani::any();
    kani::assume(ttl_s <= HORIZON);
    let ttl = Duration::new(ttl_s, 0);
    let mut st = any_state_g(n, now, ttl, true);
    let key: u8 = kani::any();
    let before = expiry_of(&st.cache, key);
    let other: u8 = kani::any();
    kani::assume(other != key);
    let other_before = expiry_of(&st.cache, other);
    let fresh = st.cache.insert(key);
    let live_before = before.map_or(false, |e| e > now);
    // "seen" from first insertion until the ttl has passed
    assert!(fresh == !live_before);
    // seen from the (first) insertion until its ttl has passed: with a zero ttl that is never
    assert!(st.cache.contains(&key) == (live_before || ttl_s > 0));
    let after = expiry_of(&st.cache, key);
    if live_before {
        // not refreshed by re-insertion
        assert!(after == before);
    } else {
        let due = Duration::new(now.0, now.1) + ttl;
        assert!(after == Some((due.as_secs(), due.subsec_nanos())));
    }
    // any other id: unchanged if still live, and never resurrected
    let other_after = expiry_of(&st.cache, other);
    match other_before {
        Some(e) if e > now => assert!(other_after == other_before),
        _ => assert!(other_after.is_none() || other_after == other_before),
    }
    assert!(wf(&st.cache));
    std::mem::forget(st);
}

tracing_off! {
#[kani::proof]
#[kani::unwind(6)]
#[kani::stub(std::time::Instant::now, clock::now)]
fn duplicate_cache_insert_contract() {
    insert_contract(2);
}
}

tracing_off! {
#[kani::proof]
#[kani::unwind(6)]
#[kani::stub(std::time::Instant::now, clock::now)]
fn duplicate_cache_insert_contract_n1() {
    insert_contract(1);
}
}

tracing_off! {
#[kani::proof]
#[kani::unwind(6)]
#[kani::stub(std::time::Instant::now, clock::now)]
fn duplicate_cache_insert_contract_n0() {
    insert_contract(0);
}
}

/// an id whose ttl has passed is forgotten by the next operation (window is not longer than ttl)
tracing_off! {
#[kani::proof]
#[kani::unwind(6)]
#[kani::stub(std::time::Instant::now, clock::now)]
fn duplicate_cache_expiry_contract() {
    let now = clock::set_any(HORIZON);
    let ttl_s: u64 = kani::any();
    kani::assume(ttl_s <= HORIZON);
    let ttl = Duration::new(ttl_s, 0);
    let mut st = any_state(2, now, ttl);
    let probe: u8 = kani::any();
    kani::assume(probe != st.k[0] && probe != st.k[1]);
    let _ = st.cache.insert(probe);
    let mut i = 0;
    while i < 2 {
        if i < st.n {
            let live = st.e[i] > now;
            assert!(st.cache.contains(&st.k[i]) == live);
        }
        i += 1;
    }
    std::mem::forget(st);
}
}

/// `contains` itself: an id whose ttl has passed is no longer reported as seen, also when
/// nothing was inserted in between (statement: "seen from its first insertion UNTIL its
/// time-to-live has passed").  `now` is the harness clock; `contains` never reads a clock.
tracing_off! {
#[kani::proof]
#[kani::unwind(6)]
#[kani::stub(std::time::Instant::now, clock::now)]
fn duplicate_cache_contains_forgets_after_ttl() {
    let now = clock::set_any(HORIZON);
    let ttl_s: u64 = kani::any();
    kani::assume(ttl_s <= HORIZON);
    let ttl = Duration::new(ttl_s, 0);
    let st = any_state(1, now, ttl);
    let live = st.e[0] > now;
    kani::cover!(live);
    kani::cover!(!live);
    let seen = st.cache.contains(&st.k[0]);
    assert!(!live || seen); // still within its ttl: seen
    kani::assert(
        live || !seen,
        "C33: contains() reports an id as seen although its time-to-live has passed (expiry is lazy: only insert() purges)",
    );
    std::mem::forget(st);
}
}

/// Vacuity canary: must FAIL.
tracing_off! {
#[kani::proof]
#[kani::unwind(6)]
#[kani::stub(std::time::Instant::now, clock::now)]
fn canary_duplicate_always_fresh() {
    let now = clock::set_any(HORIZON);
    let mut st = any_state(1, now, Duration::from_secs(5));
    assert!(st.cache.insert(kani::any()));
    std::mem::forget(st);
}
}
