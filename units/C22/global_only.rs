// C22 — global-only transport.  The CIDR table below is the specification; it is
// written from the IANA IPv4/IPv6 special-purpose address registries, not from
// the code, and is expressed on u32 / u128 with prefix masks (the code works on
// octets and segments).

use std::net::{Ipv4Addr, Ipv6Addr};

const fn in4(a: u32, net: u32, len: u32) -> bool {
    let mask: u32 = if len == 0 { 0 } else { u32::MAX << (32 - len) };
    a & mask == net & mask
}

const fn v4(a: u8, b: u8, c: u8, d: u8) -> u32 {
    u32::from_be_bytes([a, b, c, d])
}

/// Registry entries marked "Globally Reachable: False" (IPv4).
pub(crate) fn spec4_not_global(a: u32) -> bool {
    in4(a, v4(0, 0, 0, 0), 8)              // "this network"
        || in4(a, v4(10, 0, 0, 0), 8)      // private
        || in4(a, v4(100, 64, 0, 0), 10)   // shared address space
        || in4(a, v4(127, 0, 0, 0), 8)     // loopback
        || in4(a, v4(169, 254, 0, 0), 16)  // link local
        || in4(a, v4(172, 16, 0, 0), 12)   // private
        || (in4(a, v4(192, 0, 0, 0), 24) && !spec4_either(a)) // IETF protocol assignments
        || in4(a, v4(192, 0, 2, 0), 24)    // TEST-NET-1
        || in4(a, v4(192, 168, 0, 0), 16)  // private
        || in4(a, v4(198, 18, 0, 0), 15)   // benchmarking
        || in4(a, v4(198, 51, 100, 0), 24) // TEST-NET-2
        || in4(a, v4(203, 0, 113, 0), 24)  // TEST-NET-3
        || in4(a, v4(240, 0, 0, 0), 4)     // reserved + limited broadcast
}

/// Entries whose reachability the registry marks True inside a False block, or
/// N/A (deprecated 6to4 relay anycast): either answer is accepted, as the
/// property statement only constrains blocks marked not globally reachable and
/// addresses outside every special-purpose block.
pub(crate) fn spec4_either(a: u32) -> bool {
    a == v4(192, 0, 0, 9) || a == v4(192, 0, 0, 10) || in4(a, v4(192, 88, 99, 0), 24)
        // special-purpose blocks the registry marks globally reachable
        || in4(a, v4(192, 31, 196, 0), 24) || in4(a, v4(192, 52, 193, 0), 24) || in4(a, v4(192, 175, 48, 0), 24)
}

const fn in6(a: u128, net: u128, len: u32) -> bool {
    let mask: u128 = if len == 0 { 0 } else { u128::MAX << (128 - len) };
    a & mask == net & mask
}

const fn s6(s: [u16; 8]) -> u128 {
    ((s[0] as u128) << 112) | ((s[1] as u128) << 96) | ((s[2] as u128) << 80) | ((s[3] as u128) << 64)
        | ((s[4] as u128) << 48) | ((s[5] as u128) << 32) | ((s[6] as u128) << 16) | (s[7] as u128)
}

pub(crate) fn spec6_either(a: u128) -> bool {
    a == s6([0x2001, 1, 0, 0, 0, 0, 0, 1])                 // PCP anycast
        || a == s6([0x2001, 1, 0, 0, 0, 0, 0, 2])          // TURN anycast
        || in6(a, s6([0x2001, 3, 0, 0, 0, 0, 0, 0]), 32)   // AMT
        || in6(a, s6([0x2001, 4, 0x112, 0, 0, 0, 0, 0]), 48) // AS112-v6
        || in6(a, s6([0x2001, 0x20, 0, 0, 0, 0, 0, 0]), 28) // ORCHIDv2
        || in6(a, s6([0x2001, 0x30, 0, 0, 0, 0, 0, 0]), 28) // DRIP
        || in6(a, s6([0x2002, 0, 0, 0, 0, 0, 0, 0]), 16)   // 6to4: N/A
        || in6(a, s6([0x64, 0xff9b, 0, 0, 0, 0, 0, 0]), 96) // NAT64 well-known: True
        || in6(a, s6([0x2620, 0x4f, 0x8000, 0, 0, 0, 0, 0]), 48) // AS112 direct delegation: True
        || in6(a, s6([0x100, 0, 0, 1, 0, 0, 0, 0]), 64)    // dummy prefix (RFC 9780, newer than the module's source)
}

/// Registry entries marked "Globally Reachable: False" (IPv6).
pub(crate) fn spec6_not_global(a: u128) -> bool {
    (a == 0                                                     // ::/128 unspecified
        || a == 1                                               // ::1/128 loopback
        || in6(a, s6([0, 0, 0, 0, 0, 0xffff, 0, 0]), 96)        // IPv4-mapped
        || in6(a, s6([0x64, 0xff9b, 1, 0, 0, 0, 0, 0]), 48)     // local-use NAT64
        || in6(a, s6([0x100, 0, 0, 0, 0, 0, 0, 0]), 64)         // discard-only
        || in6(a, s6([0x2001, 0, 0, 0, 0, 0, 0, 0]), 23)        // IETF protocol assignments
        || in6(a, s6([0x2001, 0xdb8, 0, 0, 0, 0, 0, 0]), 32)    // documentation
        || in6(a, s6([0x3fff, 0, 0, 0, 0, 0, 0, 0]), 20)        // documentation (RFC 9637)
        || in6(a, s6([0x5f00, 0, 0, 0, 0, 0, 0, 0]), 16)        // SRv6 SIDs (RFC 9602)
        || in6(a, s6([0xfc00, 0, 0, 0, 0, 0, 0, 0]), 7)         // unique local
        || in6(a, s6([0xfe80, 0, 0, 0, 0, 0, 0, 0]), 10))       // link local
        && !spec6_either(a)
}

// ---- contracts on the real predicates -------------------------------------

/// For every IPv4 address: in a not-globally-reachable block => refused;
/// outside every special-purpose block => accepted.
#[kani::proof]
fn ipv4_is_global_matches_registry() {
    let raw: u32 = kani::any();
    let a = Ipv4Addr::from(raw);
    let g = ipv4_global::is_global(a);
    if spec4_not_global(raw) {
        assert!(!g);
    } else if !spec4_either(raw) {
        assert!(g);
    }
}

/// For every IPv6 address (all 2^128).
#[kani::proof]
fn ipv6_is_global_matches_registry() {
    let raw: u128 = kani::any();
    let a = Ipv6Addr::from(raw);
    let g = ipv6_global::is_global(a);
    if spec6_not_global(raw) {
        assert!(!g);
    } else if !spec6_either(raw) {
        assert!(g);
    }
}

/// The table itself is not vacuous: each side is inhabited (cover) and the
/// "either" class is small (it never swallows a whole False block).
#[kani::proof]
fn spec_table_sanity() {
    let raw: u32 = kani::any();
    kani::cover!(spec4_not_global(raw));
    kani::cover!(!spec4_not_global(raw) && !spec4_either(raw));
    assert!(!(spec4_not_global(raw) && spec4_either(raw)));
    let r6: u128 = kani::any();
    kani::cover!(spec6_not_global(r6));
    kani::cover!(!spec6_not_global(r6) && !spec6_either(r6));
    assert!(!(spec6_not_global(r6) && spec6_either(r6)));
    // concrete witnesses on both sides of boundaries
    assert!(spec4_not_global(v4(100, 127, 255, 255)) && !spec4_not_global(v4(100, 128, 0, 0)));
    assert!(spec4_not_global(v4(172, 31, 255, 255)) && !spec4_not_global(v4(172, 32, 0, 0)));
    assert!(spec4_not_global(v4(198, 19, 255, 255)) && !spec4_not_global(v4(198, 20, 0, 0)));
    assert!(spec6_not_global(s6([0xfdff, 0xffff, 0, 0, 0, 0, 0, 0])) && !spec6_not_global(s6([0xfe00, 0, 0, 0, 0, 0, 0, 0])));
    assert!(spec6_not_global(s6([0xfebf, 0xffff, 0, 0, 0, 0, 0, 0])) && !spec6_not_global(s6([0xfec0, 0, 0, 0, 0, 0, 0, 0])));
    assert!(spec6_not_global(s6([0x2001, 0x1ff, 0, 0, 0, 0, 0, 0])) && !spec6_not_global(s6([0x2001, 0x200, 0, 0, 0, 0, 0, 0])));
}

/// Vacuity canary: must FAIL.
#[kani::proof]
fn canary_every_ipv4_is_global() {
    let raw: u32 = kani::any();
    assert!(ipv4_global::is_global(Ipv4Addr::from(raw)));
}

// ---- Transport::dial on the real Multiaddr ---------------------------------
// The body of `dial` is extracted verbatim on every run (tracing macros dropped:
// Kani 0.68 ICEs on their formatting machinery) into `Transport::verif_dial`.
include!(concat!(env!("LIBP2P_VERIF_GEN"), "/C22/dial_fragment.rs"));

#[derive(Debug)]
pub(crate) struct MockErr;
impl std::fmt::Display for MockErr {
    fn fmt(&self, _: &mut std::fmt::Formatter<'_>) -> std::fmt::Result {
        Ok(())
    }
}
impl std::error::Error for MockErr {}

pub(crate) struct MockInner {
    pub(crate) dialed: bool,
}

impl crate::Transport for MockInner {
    type Output = ();
    type Error = MockErr;
    type ListenerUpgrade = std::future::Ready<Result<(), MockErr>>;
    type Dial = std::future::Ready<Result<(), MockErr>>;

    fn listen_on(&mut self, _: ListenerId, _: Multiaddr) -> Result<(), TransportError<Self::Error>> {
        Ok(())
    }
    fn remove_listener(&mut self, _: ListenerId) -> bool {
        false
    }
    fn dial(&mut self, _: Multiaddr, _: DialOpts) -> Result<Self::Dial, TransportError<Self::Error>> {
        self.dialed = true;
        Ok(std::future::ready(Ok(())))
    }
    fn poll(self: Pin<&mut Self>, _: &mut Context<'_>) -> Poll<TransportEvent<Self::ListenerUpgrade, Self::Error>> {
        Poll::Pending
    }
}

fn opts() -> DialOpts {
    DialOpts {
        role: crate::Endpoint::Dialer,
        port_use: crate::transport::PortUse::Reuse,
    }
}

/// dial(/ip4/<any>/tcp/<any>): inner transport reached iff the IP is allowed.
#[kani::proof]
#[kani::unwind(12)]
fn dial_ip4_symbolic() {
    let raw: u32 = kani::any();
    let port: u16 = kani::any();
    let addr = Multiaddr::empty()
        .with(Protocol::Ip4(Ipv4Addr::from(raw)))
        .with(Protocol::Tcp(port));
    let mut t = Transport::new(MockInner { dialed: false });
    let r = t.verif_dial(addr, opts());
    if spec4_not_global(raw) {
        assert!(!t.inner.dialed);
        assert!(matches!(r, Err(TransportError::MultiaddrNotSupported(_))));
    } else if !spec4_either(raw) {
        assert!(t.inner.dialed);
        assert!(r.is_ok());
    }
}

/// dial(/ip6/<any>/udp/<any>/quic-v1)
#[kani::proof]
#[kani::unwind(20)]
fn dial_ip6_symbolic() {
    let raw: u128 = kani::any();
    let port: u16 = kani::any();
    let addr = Multiaddr::empty()
        .with(Protocol::Ip6(Ipv6Addr::from(raw)))
        .with(Protocol::Udp(port))
        .with(Protocol::QuicV1);
    let mut t = Transport::new(MockInner { dialed: false });
    let r = t.verif_dial(addr, opts());
    if spec6_not_global(raw) {
        assert!(!t.inner.dialed);
        assert!(matches!(r, Err(TransportError::MultiaddrNotSupported(_))));
    } else if !spec6_either(raw) {
        assert!(t.inner.dialed);
        assert!(r.is_ok());
    }
}

/// Only the *leading* component decides: a non-IP first component is refused
/// whatever follows (here a globally reachable IP), and the empty address is
/// refused.
fn refused_with_first(first: Protocol<'static>) {
    let addr = Multiaddr::empty()
        .with(first)
        .with(Protocol::Ip4(Ipv4Addr::new(8, 8, 8, 8)));
    let mut t = Transport::new(MockInner { dialed: false });
    let r = t.verif_dial(addr, opts());
    assert!(!t.inner.dialed);
    assert!(matches!(r, Err(TransportError::MultiaddrNotSupported(_))));
}

#[kani::proof]
#[kani::unwind(20)]
fn dial_refuses_tcp_first() {
    refused_with_first(Protocol::Tcp(kani::any()));
}

#[kani::proof]
#[kani::unwind(20)]
fn dial_refuses_udp_first() {
    refused_with_first(Protocol::Udp(kani::any()));
}

#[kani::proof]
#[kani::unwind(20)]
fn dial_refuses_circuit_first() {
    refused_with_first(Protocol::P2pCircuit);
}

#[kani::proof]
#[kani::unwind(20)]
fn dial_refuses_empty() {
    let mut t2 = Transport::new(MockInner { dialed: false });
    let r2 = t2.verif_dial(Multiaddr::empty(), opts());
    assert!(!t2.inner.dialed);
    assert!(matches!(r2, Err(TransportError::MultiaddrNotSupported(_))));
}

/// A private leading IP is refused even when a global IP follows, and a global
/// leading IP is dialled even when a private one follows.
#[kani::proof]
#[kani::unwind(20)]
fn dial_only_leading_ip_counts() {
    let a: u32 = kani::any();
    let b: u32 = kani::any();
    kani::assume(spec4_not_global(a));
    kani::assume(!spec4_not_global(b) && !spec4_either(b));
    let addr = Multiaddr::empty().with(Protocol::Ip4(Ipv4Addr::from(a))).with(Protocol::Ip4(Ipv4Addr::from(b)));
    let mut t = Transport::new(MockInner { dialed: false });
    assert!(t.verif_dial(addr, opts()).is_err());
    assert!(!t.inner.dialed);
    let addr = Multiaddr::empty().with(Protocol::Ip4(Ipv4Addr::from(b))).with(Protocol::Ip4(Ipv4Addr::from(a)));
    let mut t = Transport::new(MockInner { dialed: false });
    assert!(t.verif_dial(addr, opts()).is_ok());
    assert!(t.inner.dialed);
}
