// C56 — Stream::{poll_read, poll_write, poll_close, poll_close_read}: the method
// bodies are extracted verbatim on every run and compiled as methods of
// `FragStream`, whose `io` is a nondeterministic mock of the framed data channel
// (any mix of Pending / error / end-of-stream / flags / data).  One call from ANY
// state satisfying the representation invariant `wf` is checked against the
// statement's clauses and must re-establish `wf` => inductive over all histories
// of one stream.
include!(concat!(env!("LIBP2P_VERIF"), "/shims/tracing_off.rs"));
use super::state::verif::c56::{any_state, code, is_reset, monotone, read_open, write_open};

/// which payloads the mock channel may deliver (the poll_read contract is split
/// by this to keep each CBMC query small; together the three cases are all cases)
#[derive(Clone, Copy, PartialEq, Eq)]
pub(crate) enum Payloads {
    Any,
    NoData,
    DataOnly,
}

pub(crate) struct MockIo {
    budget: u8,
    payloads: Payloads,
    pub(crate) data_sent: bool,
    pub(crate) flag_sent: Option<i32>,
    pub(crate) delivered: u8,
}

impl futures::Sink<Message> for MockIo {
    type Error = io::Error;
    fn poll_ready(self: Pin<&mut Self>, _: &mut Context<'_>) -> Poll<io::Result<()>> {
        nondet_poll()
    }
    fn start_send(self: Pin<&mut Self>, item: Message) -> io::Result<()> {
        let me = self.get_mut();
        if kani::any() {
            return Err(io::ErrorKind::Other.into());
        }
        if item.message.is_some() {
            me.data_sent = true;
        }
        if item.flag.is_some() {
            me.flag_sent = item.flag;
        }
        Ok(())
    }
    fn poll_flush(self: Pin<&mut Self>, _: &mut Context<'_>) -> Poll<io::Result<()>> {
        nondet_poll()
    }
    fn poll_close(self: Pin<&mut Self>, _: &mut Context<'_>) -> Poll<io::Result<()>> {
        nondet_poll()
    }
}

fn nondet_poll() -> Poll<io::Result<()>> {
    let k: u8 = kani::any();
    match k % 3 {
        0 => Poll::Pending,
        1 => Poll::Ready(Ok(())),
        _ => Poll::Ready(Err(io::ErrorKind::Other.into())),
    }
}

/// stands in for the real `io_poll_next` (protobuf decode of the next frame)
fn io_poll_next(io: &mut MockIo, _cx: &mut Context<'_>) -> Poll<io::Result<Option<(Option<Flag>, Option<Vec<u8>>)>>> {
    if io.budget == 0 {
        return if kani::any() { Poll::Pending } else { Poll::Ready(Ok(None)) };
    }
    io.budget -= 1;
    let k: u8 = kani::any();
    match k % 4 {
        0 => Poll::Pending,
        1 => Poll::Ready(Err(io::ErrorKind::Other.into())),
        2 => Poll::Ready(Ok(None)),
        _ => {
            io.delivered += 1;
            let f: u8 = kani::any();
            let flag = match f % 4 {
                0 => None,
                1 => Some(Flag::Fin),
                2 => Some(Flag::StopSending),
                _ => Some(Flag::Reset),
            };
            let m: u8 = kani::any();
            let msg = match (io.payloads, m % 3) {
                (Payloads::DataOnly, _) => Some(vec![7u8]),
                (_, 0) => None,
                (_, 1) => Some(Vec::new()),
                (Payloads::NoData, _) => None,
                (Payloads::Any, _) => Some(vec![7u8]),
            };
            Poll::Ready(Ok(Some((flag, msg))))
        }
    }
}

pub(crate) struct FragStream {
    io: MockIo,
    state: State,
    read_buffer: Bytes,
    drop_notifier: Option<oneshot::Sender<GracefullyClosed>>,
}

include!(concat!(env!("LIBP2P_VERIF_GEN"), "/C56/stream_fragment.rs"));

/// write half finished (the only situations in which the drop notifier may be gone)
fn write_done(s: &State) -> bool {
    matches!(s, State::WriteClosed | State::BothClosed { .. } | State::ClosingRead { write_closed: true, .. })
}

/// representation invariant
fn wf(s: &FragStream) -> bool {
    s.drop_notifier.is_some() || write_done(&s.state)
}

fn any_stream(budget: u8) -> (FragStream, Option<oneshot::Receiver<GracefullyClosed>>) {
    any_stream_with(budget, None, Payloads::Any)
}

fn any_stream_with(
    budget: u8,
    buffered: Option<bool>,
    payloads: Payloads,
) -> (FragStream, Option<oneshot::Receiver<GracefullyClosed>>) {
    let state = any_state();
    let (tx, rx) = oneshot::channel();
    let (notifier, rx) = if kani::any() { (Some(tx), Some(rx)) } else { (None, None) };
    let read_buffer = if buffered.unwrap_or_else(|| kani::any()) { Bytes::from_static(b"z") } else { Bytes::new() };
    let s = FragStream {
        io: MockIo { budget, payloads, data_sent: false, flag_sent: None, delivered: 0 },
        state,
        read_buffer,
        drop_notifier: notifier,
    };
    kani::assume(wf(&s));
    (s, rx)
}

fn cx_run<R>(f: impl FnOnce(&mut Context<'_>) -> R) -> R {
    let w = futures::task::noop_waker();
    let mut cx = Context::from_waker(&w);
    f(&mut cx)
}

fn is_reset_err<T>(r: &Poll<io::Result<T>>) -> bool {
    matches!(r, Poll::Ready(Err(e)) if e.kind() == io::ErrorKind::ConnectionReset)
}

/// ASSUMED dependency contract: `Bytes::from(Vec<u8>)` yields a buffer with the Vec's
/// content.  The extraction rewrites the one statement `*read_buffer = msg.into();`
/// of poll_read to call this function (reported under dropped_by_extraction; Kani's
/// stubbing cannot name the generic `From` impl).  The real conversion (into_boxed_slice -> realloc with a length the
/// solver sees as symbolic after the Poll/Result/Option merge) exhausted 64 GB in
/// CBMC's propositional reduction; the mock channel only ever delivers [] or [7].
fn bytes_from_vec(v: Vec<u8>) -> Bytes {
    let b = if v.is_empty() {
        Bytes::new()
    } else {
        assert!(v.len() == 1 && v[0] == 7u8);
        Bytes::from_static(&[7u8])
    };
    std::mem::forget(v);
    b
}

/// the poll_read contract, for one of three disjoint and jointly exhaustive cases
/// (bytes already buffered / nothing buffered and the channel delivers no data
/// payload / nothing buffered and every delivered frame carries a data byte)
fn poll_read_contract_case(buffered: bool, budget: u8, payloads: Payloads) {
    let (mut s, _rx) = any_stream_with(budget, Some(buffered), payloads);
    let s0 = s.state;
    let had_buffered = !s.read_buffer.is_empty();
    let mut buf = [0u8; 2];
    let r = cx_run(|cx| Pin::new(&mut s).poll_read(cx, &mut buf));
    // no panic (implicit) + invariant re-established + halves never re-open
    assert!(wf(&s));
    assert!(monotone(&s0, &s.state));
    // reads only while the read half is open; after a reset: ConnectionReset
    if !read_open(&s0) {
        assert!(matches!(r, Poll::Ready(Err(_))));
        assert!(s.io.delivered == 0);
    }
    if is_reset(&s0) {
        assert!(is_reset_err(&r));
    }
    if let Poll::Ready(Ok(n)) = r {
        assert!(read_open(&s0));
        assert!(n <= buf.len());
        if had_buffered {
            assert!(n == 1 && buf[0] == b'z');
        }
    }
    // poll_read never writes
    assert!(!s.io.data_sent && s.io.flag_sent.is_none());
    // the harness is over: skip the drop glue of Bytes / io::Error (not part of poll_read)
    std::mem::forget(r);
    std::mem::forget(s);
}

tracing_off! {
#[kani::proof]
#[kani::unwind(3)]
fn stream_poll_read_contract_buffered() {
    poll_read_contract_case(true, 1, Payloads::Any);
}
}

tracing_off! {
#[kani::proof]
#[kani::unwind(3)]
fn stream_poll_read_contract_no_data() {
    poll_read_contract_case(false, 1, Payloads::NoData);
}
}

tracing_off! {
#[kani::proof]
#[kani::unwind(3)]
fn stream_poll_read_contract_data() {
    poll_read_contract_case(false, 1, Payloads::DataOnly);
}
}

tracing_off! {
#[kani::proof]
#[kani::unwind(5)]
fn stream_poll_write_contract() {
    let (mut s, _rx) = any_stream(2);
    let s0 = s.state;
    let data = [1u8, 2, 3];
    let r = cx_run(|cx| Pin::new(&mut s).poll_write(cx, &data));
    assert!(wf(&s));
    assert!(monotone(&s0, &s.state));
    // data leaves only while the write half is open (checked at the moment of sending)
    if s.io.data_sent {
        assert!(write_open(&s.state));
        assert!(write_open(&s0));
    }
    if !write_open(&s0) {
        assert!(matches!(r, Poll::Ready(Err(_))));
        assert!(!s.io.data_sent);
    }
    if is_reset(&s0) {
        assert!(is_reset_err(&r));
    }
    if let Poll::Ready(Ok(n)) = r {
        assert!(n == data.len());
        assert!(s.io.data_sent);
    }
    assert!(s.io.flag_sent.is_none());
}
}

tracing_off! {
#[kani::proof]
#[kani::unwind(5)]
fn stream_poll_close_contract() {
    let (mut s, _rx) = any_stream(2);
    let s0 = s.state;
    let r = cx_run(|cx| Pin::new(&mut s).poll_close(cx));
    assert!(wf(&s));
    assert!(monotone(&s0, &s.state));
    assert!(!s.io.data_sent);
    if is_reset(&s0) {
        assert!(is_reset_err(&r));
    }
    if let Poll::Ready(Ok(())) = r {
        assert!(!write_open(&s.state));
        assert!(write_done(&s.state));
    }
    if let Some(f) = s.io.flag_sent {
        assert!(f == Flag::Fin as i32);
        // FIN goes out only if the write half was open, or its close had been requested but not yet announced
        assert!(write_open(&s0) || matches!(s0, State::ClosingWrite { inner: Closing::Requested, .. }));
    }
    // closing the write half never closes the read half by itself
    assert!(read_open(&s.state) == read_open(&s0));
}
}

tracing_off! {
#[kani::proof]
#[kani::unwind(5)]
fn stream_poll_close_read_contract() {
    let (mut s, _rx) = any_stream(2);
    let s0 = s.state;
    let r = cx_run(|cx| Pin::new(&mut s).poll_close_read(cx));
    assert!(wf(&s));
    assert!(monotone(&s0, &s.state));
    assert!(!s.io.data_sent);
    if is_reset(&s0) {
        assert!(is_reset_err(&r));
    }
    if let Poll::Ready(Ok(())) = r {
        assert!(!read_open(&s.state));
    }
    if let Some(f) = s.io.flag_sent {
        assert!(f == Flag::StopSending as i32);
        assert!(read_open(&s0) || matches!(s0, State::ClosingRead { inner: Closing::Requested, .. }));
    }
    assert!(write_open(&s.state) == write_open(&s0));
    let _ = code(&s.state);
}
}

/// Vacuity canary: must FAIL.
tracing_off! {
#[kani::proof]
#[kani::unwind(5)]
fn canary_stream_write_always_errs() {
    let (mut s, _rx) = any_stream(2);
    let data = [1u8];
    let r = cx_run(|cx| Pin::new(&mut s).poll_write(cx, &data));
    assert!(!matches!(r, Poll::Ready(Ok(_))));
}
}
