// C56 — WebRTC half-close state machine.  Abstract view of a `State`:
//   read_open(s)  : reads are still allowed
//   write_open(s) : writes are still allowed
//   is_reset(s)   : the stream was reset
// Contracts (attached in place on the real methods of `State`) say, for every
// method: halves never re-open, reset is absorbing, barriers answer exactly the
// abstract view, and the close_* protocol only moves along
// Open -> Closing{Requested} -> Closing{MessageSent} -> Closed.

pub(crate) fn read_open(s: &State) -> bool {
    matches!(s, State::Open | State::WriteClosed | State::ClosingWrite { read_closed: false, .. })
}

pub(crate) fn write_open(s: &State) -> bool {
    matches!(s, State::Open | State::ReadClosed | State::ClosingRead { write_closed: false, .. })
}

pub(crate) fn is_reset(s: &State) -> bool {
    matches!(s, State::BothClosed { reset: true })
}

/// discriminant-and-payload encoding, to state "unchanged" on a type without PartialEq
pub(crate) fn code(s: &State) -> u8 {
    let c = |x: &Closing| match x {
        Closing::Requested => 0u8,
        Closing::MessageSent => 1u8,
    };
    match s {
        State::Open => 0,
        State::ReadClosed => 1,
        State::WriteClosed => 2,
        State::ClosingRead { write_closed, inner } => 10 + 2 * (*write_closed as u8) + c(inner),
        State::ClosingWrite { read_closed, inner } => 20 + 2 * (*read_closed as u8) + c(inner),
        State::BothClosed { reset } => 30 + *reset as u8,
    }
}

/// the monotonicity every transition must respect
pub(crate) fn monotone(old: &State, new: &State) -> bool {
    (!read_open(new) || read_open(old)) && (!write_open(new) || write_open(old)) && (!is_reset(old) || is_reset(new))
}

fn err_kind<T>(r: &io::Result<T>) -> Option<io::ErrorKind> {
    match r {
        Ok(_) => None,
        Err(e) => Some(e.kind()),
    }
}

// ---- barriers ---------------------------------------------------------------
pub(crate) fn post_read_barrier(s: &State, r: &io::Result<()>) -> bool {
    if read_open(s) {
        r.is_ok()
    } else if is_reset(s) {
        err_kind(r) == Some(io::ErrorKind::ConnectionReset)
    } else {
        err_kind(r) == Some(io::ErrorKind::BrokenPipe)
    }
}

pub(crate) fn post_write_barrier(s: &State, r: &io::Result<()>) -> bool {
    if write_open(s) {
        r.is_ok()
    } else if is_reset(s) {
        err_kind(r) == Some(io::ErrorKind::ConnectionReset)
    } else {
        err_kind(r) == Some(io::ErrorKind::BrokenPipe)
    }
}

// ---- close_write protocol ----------------------------------------------------
pub(crate) fn post_close_write_barrier(old: &State, new: &State, r: &io::Result<Option<Closing>>) -> bool {
    let ok = match r {
        // nothing left to do: the write half is already closed and the state is untouched
        Ok(None) => matches!(old, State::WriteClosed) && code(new) == code(old),
        // a close is in progress at stage `c`: exactly the state the *_message_sent /
        // write_closed callbacks require
        Ok(Some(c)) => match new {
            State::ClosingWrite { inner, read_closed } => {
                code_closing(inner) == code_closing(c)
                    && match old {
                        State::Open => !*read_closed && matches!(c, Closing::Requested),
                        State::ReadClosed => *read_closed && matches!(c, Closing::Requested),
                        State::ClosingWrite { .. } => code(old) == code(new),
                        _ => false,
                    }
            }
            _ => false,
        },
        Err(e) => {
            code(new) == code(old)
                && if is_reset(old) { e.kind() == io::ErrorKind::ConnectionReset } else { e.kind() != io::ErrorKind::ConnectionReset }
        }
    };
    ok && monotone(old, new) && (!is_reset(old) || r.is_err())
}

fn code_closing(c: &Closing) -> u8 {
    match c {
        Closing::Requested => 0,
        Closing::MessageSent => 1,
    }
}

pub(crate) fn pre_close_write_message_sent(s: &State) -> bool {
    matches!(s, State::ClosingWrite { inner: Closing::Requested, .. })
}

pub(crate) fn post_close_write_message_sent(old: &State, new: &State) -> bool {
    match (old, new) {
        (State::ClosingWrite { read_closed: a, .. }, State::ClosingWrite { read_closed: b, inner: Closing::MessageSent }) => a == b,
        _ => false,
    }
}

pub(crate) fn pre_write_closed(s: &State) -> bool {
    matches!(s, State::ClosingWrite { inner: Closing::MessageSent, .. })
}

pub(crate) fn post_write_closed(old: &State, new: &State) -> bool {
    match old {
        State::ClosingWrite { read_closed: true, .. } => matches!(new, State::BothClosed { reset: false }),
        State::ClosingWrite { read_closed: false, .. } => matches!(new, State::WriteClosed),
        _ => false,
    }
}

// ---- close_read protocol -----------------------------------------------------
pub(crate) fn post_close_read_barrier(old: &State, new: &State, r: &io::Result<Option<Closing>>) -> bool {
    let ok = match r {
        Ok(None) => matches!(old, State::ReadClosed) && code(new) == code(old),
        Ok(Some(c)) => match new {
            State::ClosingRead { inner, write_closed } => {
                code_closing(inner) == code_closing(c)
                    && match old {
                        State::Open => !*write_closed && matches!(c, Closing::Requested),
                        State::WriteClosed => *write_closed && matches!(c, Closing::Requested),
                        State::ClosingRead { .. } => code(old) == code(new),
                        _ => false,
                    }
            }
            _ => false,
        },
        Err(e) => {
            code(new) == code(old)
                && if is_reset(old) { e.kind() == io::ErrorKind::ConnectionReset } else { e.kind() != io::ErrorKind::ConnectionReset }
        }
    };
    ok && monotone(old, new) && (!is_reset(old) || r.is_err())
}

pub(crate) fn pre_close_read_message_sent(s: &State) -> bool {
    matches!(s, State::ClosingRead { inner: Closing::Requested, .. })
}

pub(crate) fn post_close_read_message_sent(old: &State, new: &State) -> bool {
    match (old, new) {
        (State::ClosingRead { write_closed: a, .. }, State::ClosingRead { write_closed: b, inner: Closing::MessageSent }) => a == b,
        _ => false,
    }
}

pub(crate) fn pre_read_closed(s: &State) -> bool {
    matches!(s, State::ClosingRead { inner: Closing::MessageSent, .. })
}

pub(crate) fn post_read_closed(old: &State, new: &State) -> bool {
    match old {
        State::ClosingRead { write_closed: true, .. } => matches!(new, State::BothClosed { reset: false }),
        State::ClosingRead { write_closed: false, .. } => matches!(new, State::ReadClosed),
        _ => false,
    }
}

// ---- inbound flags -----------------------------------------------------------
/// handle_inbound_flag: RESET => reset state and cleared buffer from EVERY state;
/// FIN never leaves the read half open in a state that had nothing in flight
/// (Open -> ReadClosed, WriteClosed -> BothClosed); STOP_SENDING likewise for the
/// write half; halves never re-open; reset is absorbing; buffer untouched unless
/// reset.
pub(crate) fn post_handle_inbound_flag(old: &State, flag: Flag, new: &State, buf_len_old: usize, buf_len_new: usize) -> bool {
    let by_flag = match flag {
        Flag::Reset => is_reset(new) && buf_len_new == 0,
        Flag::Fin => {
            buf_len_new == buf_len_old
                && match old {
                    State::Open => matches!(new, State::ReadClosed),
                    State::WriteClosed => matches!(new, State::BothClosed { reset: false }),
                    _ => code(new) == code(old),
                }
        }
        Flag::StopSending => {
            buf_len_new == buf_len_old
                && match old {
                    State::Open => matches!(new, State::WriteClosed),
                    State::ReadClosed => matches!(new, State::BothClosed { reset: false }),
                    _ => code(new) == code(old),
                }
        }
    };
    by_flag && monotone(old, new)
}

// ---- harnesses -----------------------------------------------------------------
pub(crate) fn any_closing() -> Closing {
    if kani::any() { Closing::Requested } else { Closing::MessageSent }
}

pub(crate) fn any_state() -> State {
    let k: u8 = kani::any();
    kani::assume(k < 6);
    match k {
        0 => State::Open,
        1 => State::ReadClosed,
        2 => State::WriteClosed,
        3 => State::ClosingRead { write_closed: kani::any(), inner: any_closing() },
        4 => State::ClosingWrite { read_closed: kani::any(), inner: any_closing() },
        _ => State::BothClosed { reset: kani::any() },
    }
}

pub(crate) fn any_flag() -> Flag {
    let k: u8 = kani::any();
    kani::assume(k < 3);
    match k {
        0 => Flag::Fin,
        1 => Flag::StopSending,
        _ => Flag::Reset,
    }
}

#[kani::proof_for_contract(State::read_barrier)]
fn contract_read_barrier() {
    let s = any_state();
    std::mem::forget(s.read_barrier());
}

#[kani::proof_for_contract(State::write_barrier)]
fn contract_write_barrier() {
    let s = any_state();
    std::mem::forget(s.write_barrier());
}

#[kani::proof_for_contract(State::close_write_barrier)]
#[kani::unwind(4)]
fn contract_close_write_barrier() {
    let mut s = any_state();
    std::mem::forget(s.close_write_barrier());
}

#[kani::proof_for_contract(State::close_read_barrier)]
#[kani::unwind(4)]
fn contract_close_read_barrier() {
    let mut s = any_state();
    std::mem::forget(s.close_read_barrier());
}

#[kani::proof_for_contract(State::close_write_message_sent)]
fn contract_close_write_message_sent() {
    let mut s = any_state();
    s.close_write_message_sent();
}

#[kani::proof_for_contract(State::write_closed)]
fn contract_write_closed() {
    let mut s = any_state();
    s.write_closed();
}

#[kani::proof_for_contract(State::close_read_message_sent)]
fn contract_close_read_message_sent() {
    let mut s = any_state();
    s.close_read_message_sent();
}

#[kani::proof_for_contract(State::read_closed)]
fn contract_read_closed() {
    let mut s = any_state();
    s.read_closed();
}

#[kani::proof]
fn contract_handle_inbound_flag() {
    let mut s = any_state();
    let old = s;
    let flag = any_flag();
    let mut buf = if kani::any() { Bytes::from_static(b"xy") } else { Bytes::new() };
    let l0 = buf.len();
    s.handle_inbound_flag(flag, &mut buf);
    assert!(post_handle_inbound_flag(&old, flag, &s, l0, buf.len()));
}

/// The close protocol as the callers drive it (barrier -> message_sent ->
/// barrier -> closed), checked against the *contracts* only: every precondition
/// of the callbacks is established by the barrier's postcondition, so the
/// `unreachable!` arms are never reached, and at the end the half is closed.
#[kani::proof]
#[kani::unwind(4)]
fn lemma_close_write_protocol_is_safe() {
    let mut s = any_state();
    let s0 = s;
    match s.close_write_barrier() {
        Ok(Some(Closing::Requested)) => {
            s.close_write_message_sent();
            match s.close_write_barrier() {
                Ok(Some(Closing::MessageSent)) => {
                    s.write_closed();
                    assert!(!write_open(&s));
                    assert!(matches!(s.close_write_barrier(), Ok(None)) || matches!(s, State::BothClosed { reset: false }));
                }
                _ => assert!(false),
            }
        }
        Ok(Some(Closing::MessageSent)) => {
            s.write_closed();
            assert!(!write_open(&s));
        }
        Ok(None) => assert!(!write_open(&s)),
        Err(_) => assert!(code(&s) == code(&s0)),
    }
    assert!(monotone(&s0, &s));
}

#[kani::proof]
#[kani::unwind(4)]
fn lemma_close_read_protocol_is_safe() {
    let mut s = any_state();
    let s0 = s;
    match s.close_read_barrier() {
        Ok(Some(Closing::Requested)) => {
            s.close_read_message_sent();
            match s.close_read_barrier() {
                Ok(Some(Closing::MessageSent)) => {
                    s.read_closed();
                    assert!(!read_open(&s));
                }
                _ => assert!(false),
            }
        }
        Ok(Some(Closing::MessageSent)) => {
            s.read_closed();
            assert!(!read_open(&s));
        }
        Ok(None) => assert!(!read_open(&s)),
        Err(_) => assert!(code(&s) == code(&s0)),
    }
    assert!(monotone(&s0, &s));
}

/// Vacuity canary: must FAIL.
#[kani::proof]
fn canary_reset_keeps_read_open() {
    let mut s = any_state();
    let mut buf = Bytes::new();
    s.handle_inbound_flag(Flag::Reset, &mut buf);
    assert!(s.read_barrier().is_ok());
}
