// C47 — relay resource limits.  The admission conditions and accept statements of
// Behaviour::on_connection_handler_event are extracted verbatim each run (the
// events themselves carry live streams, so the method cannot be called); the
// maps are the dependency shim.  Invariant `inv`:
//   every peer's ACTIVE reservations <= max_reservations_per_peer, total <= max_reservations,
//   circuits involving any one peer  <= max_circuits_per_peer,     total <= max_circuits.
// Obligation (inductive step): inv(before) and the request is admitted  =>  inv(after),
// one obligation per limit so that a report names the limit that is not kept.

pub(crate) struct AdmitEnv {
    pub(crate) connections: HashMap<PeerId, HashMap<ConnectionId, Reservation>>,
    pub(crate) circuits: CircuitsTracker,
    pub(crate) config: Config,
}

pub(crate) struct Req(pub(crate) PeerId);
impl Req {
    pub(crate) fn dst(&self) -> PeerId {
        self.0
    }
}

include!(concat!(env!("LIBP2P_VERIF_GEN"), "/C47/admission_fragment.rs"));

fn peer(b: u8) -> PeerId {
    PeerId::from_multihash(libp2p_core::multihash::Multihash::<64>::wrap(0, &[b]).unwrap()).unwrap()
}
fn any_peer() -> PeerId {
    let b: u8 = kani::any();
    kani::assume(b < 3);
    peer(b)
}
fn any_conn() -> ConnectionId {
    let c: u8 = kani::any();
    kani::assume(c < 4);
    ConnectionId::new_unchecked(c as usize)
}

fn config(max_res: usize, max_res_pp: usize, max_c: usize, max_c_pp: usize) -> Config {
    Config {
        max_reservations: max_res,
        max_reservations_per_peer: max_res_pp,
        reservation_duration: Duration::from_secs(1),
        reservation_rate_limiters: Vec::new(),
        max_circuits: max_c,
        max_circuits_per_peer: max_c_pp,
        max_circuit_duration: Duration::from_secs(1),
        max_circuit_bytes: 1,
        circuit_src_rate_limiters: Vec::new(),
    }
}

fn small() -> usize {
    let x: u8 = kani::any();
    kani::assume(x <= 3);
    x as usize
}

fn active_of(e: &AdmitEnv, p: &PeerId) -> usize {
    e.connections.get(p).map_or(0, |cs| cs.values().filter(|s| s.is_active()).count())
}
fn total_active(e: &AdmitEnv) -> usize {
    active_of(e, &peer(0)) + active_of(e, &peer(1)) + active_of(e, &peer(2))
}
fn circuits_of(e: &AdmitEnv, p: PeerId) -> usize {
    e.circuits.circuits.values().filter(|c| c.src_peer_id == p || c.dst_peer_id == p).count()
}

fn inv_reservations(e: &AdmitEnv) -> bool {
    let m = e.config.max_reservations_per_peer;
    active_of(e, &peer(0)) <= m && active_of(e, &peer(1)) <= m && active_of(e, &peer(2)) <= m
        && total_active(e) <= e.config.max_reservations
}
fn inv_circuits(e: &AdmitEnv) -> bool {
    let m = e.config.max_circuits_per_peer;
    circuits_of(e, peer(0)) <= m && circuits_of(e, peer(1)) <= m && circuits_of(e, peer(2)) <= m
        && e.circuits.len() <= e.config.max_circuits
}

fn empty_env() -> AdmitEnv {
    AdmitEnv {
        connections: HashMap::new(),
        circuits: CircuitsTracker::default(),
        config: config(small(), small(), small(), small()),
    }
}

fn any_status() -> Reservation {
    if kani::any() { Reservation::Active } else { Reservation::None }
}

/// reservation side (the reservation admission text does not read `circuits`): a fixed
/// key layout with symbolic statuses — peer 0 on connections 0 and 1, peer 1 on
/// connection 0, peer 2 unknown — so peer 0 holds 0..2 active reservations, peer 1
/// 0..1; the requester and its connection are arbitrary (3 peers x 4 connections)
fn any_reservation_env() -> AdmitEnv {
    let mut e = empty_env();
    e.connections.entry(peer(0)).or_default().insert(ConnectionId::new_unchecked(0), any_status());
    e.connections.entry(peer(0)).or_default().insert(ConnectionId::new_unchecked(1), any_status());
    e.connections.entry(peer(1)).or_default().insert(ConnectionId::new_unchecked(0), any_status());
    e
}

/// circuit side: up to 2 circuits with arbitrary endpoints (3 peers x 4 connection ids);
/// `connections` (read only by the destination lookup) holds one entry: peer 1 on
/// connection 0 with a symbolic reservation status
fn any_circuit_env() -> AdmitEnv {
    let mut e = empty_env();
    e.connections.entry(peer(1)).or_default().insert(ConnectionId::new_unchecked(0), any_status());
    let mut j = 0;
    while j < 2 {
        if kani::any() {
            e.circuits.insert(Circuit {
                status: if kani::any() { CircuitStatus::Accepting } else { CircuitStatus::Accepted },
                src_peer_id: any_peer(),
                src_connection_id: any_conn(),
                dst_peer_id: any_peer(),
                dst_connection_id: any_conn(),
            });
        }
        j += 1;
    }
    e
}

fn some_endpoint() -> ConnectedPoint {
    ConnectedPoint::Listener { local_addr: Multiaddr::empty(), send_back_addr: Multiaddr::empty() }
}

fn admit_reservation(e: &mut AdmitEnv) -> Option<(PeerId, ConnectionId)> {
    let src = any_peer();
    let conn = any_conn();
    let renewed: bool = kani::any();
    // a renewal comes from a connection that already holds an active reservation
    // (the handler reports `renewed` only while its own reservation timer runs)
    let holds = e.connections.get(&src).and_then(|cs| cs.get(&conn)).map_or(false, |s| s.is_active());
    kani::assume(!renewed || holds);
    let ep = some_endpoint();
    let now: Instant = unsafe { std::mem::zeroed() };
    let deny = e.deny_reservation(renewed, src, &ep, now);
    kani::cover!(!deny);
    kani::cover!(deny);
    if deny {
        return None;
    }
    e.accept_reservation(src, conn);
    Some((src, conn))
}

/// reservation request admitted => no peer holds more active reservations than max_reservations_per_peer
#[kani::proof]
#[kani::unwind(8)]
fn reservation_admission_keeps_per_peer_limit() {
    let mut e = any_reservation_env();
    kani::assume(inv_reservations(&e));
    if let Some((src, conn)) = admit_reservation(&mut e) {
        assert!(e.connections.get(&src).and_then(|cs| cs.get(&conn)).map_or(false, |s| s.is_active()));
        let m = e.config.max_reservations_per_peer;
        assert!(
            active_of(&e, &peer(0)) <= m && active_of(&e, &peer(1)) <= m && active_of(&e, &peer(2)) <= m,
            "C47: a peer holds more active reservations than max_reservations_per_peer"
        );
    }
}

/// reservation request admitted => total active reservations <= max_reservations
#[kani::proof]
#[kani::unwind(8)]
fn reservation_admission_keeps_total_limit() {
    let mut e = any_reservation_env();
    kani::assume(inv_reservations(&e));
    if admit_reservation(&mut e).is_some() {
        assert!(total_active(&e) <= e.config.max_reservations, "more active reservations than max_reservations");
    }
}

fn admit_circuit(e: &mut AdmitEnv) -> Option<(PeerId, PeerId, usize)> {
    let src = any_peer();
    let dst = any_peer();
    let conn = any_conn();
    let ep = some_endpoint();
    let now: Instant = unsafe { std::mem::zeroed() };
    let n0 = e.circuits.len();
    let req = Req(dst);
    if e.deny_circuit(src, &ep, &req, now) {
        return None;
    }
    // accepted only if the destination holds an active reservation (same `else if let`)
    let dst_conn = match e.find_destination(&req) {
        Some((c, st)) => {
            assert!(st.is_active());
            *c
        }
        None => return None,
    };
    let id = e.accept_circuit(src, conn, &req, &dst_conn);
    assert!(e.circuits.len() == n0 + 1);
    assert!(e.circuits.circuits.contains_key(&id));
    kani::cover!(true);
    Some((src, dst, n0))
}

/// circuit admitted => circuits involving the SOURCE peer <= max_circuits_per_peer
#[kani::proof]
#[kani::unwind(8)]
fn circuit_admission_keeps_source_per_peer_limit() {
    let mut e = any_circuit_env();
    kani::assume(inv_circuits(&e));
    if let Some((src, _dst, _)) = admit_circuit(&mut e) {
        assert!(
            circuits_of(&e, src) <= e.config.max_circuits_per_peer,
            "C47: more circuits involve the source peer than max_circuits_per_peer"
        );
    }
}

/// circuit admitted => circuits involving the DESTINATION peer <= max_circuits_per_peer
#[kani::proof]
#[kani::unwind(8)]
fn circuit_admission_keeps_destination_per_peer_limit() {
    let mut e = any_circuit_env();
    kani::assume(inv_circuits(&e));
    if let Some((_src, dst, _)) = admit_circuit(&mut e) {
        assert!(
            circuits_of(&e, dst) <= e.config.max_circuits_per_peer,
            "C47: more circuits involve the destination peer than max_circuits_per_peer"
        );
    }
}

/// circuit admitted => total <= max_circuits, and peers that are neither source nor
/// destination keep their count
#[kani::proof]
#[kani::unwind(8)]
fn circuit_admission_keeps_total_limit() {
    let mut e = any_circuit_env();
    kani::assume(inv_circuits(&e));
    let before = [circuits_of(&e, peer(0)), circuits_of(&e, peer(1)), circuits_of(&e, peer(2))];
    if let Some((src, dst, _)) = admit_circuit(&mut e) {
        assert!(e.circuits.len() <= e.config.max_circuits, "more circuits than max_circuits");
        let mut b = 0u8;
        while b < 3 {
            if peer(b) != src && peer(b) != dst {
                assert!(circuits_of(&e, peer(b)) == before[b as usize]);
            }
            b += 1;
        }
    }
}

/// CircuitsTracker: map contracts
#[kani::proof]
#[kani::unwind(8)]
fn circuits_tracker_contracts() {
    let mut e = any_circuit_env();
    let p = any_peer();
    let c = any_conn();
    let n0 = e.circuits.len();
    let of_p = circuits_of(&e, p);
    assert!(e.circuits.num_circuits_of_peer(p) == of_p);
    let touching = e.circuits.circuits.values()
        .filter(|x| (x.src_peer_id == p && x.src_connection_id == c) || (x.dst_peer_id == p && x.dst_connection_id == c))
        .count();
    let removed = e.circuits.remove_by_connection(p, c);
    // exactly the circuits using that connection (as source or destination) go away
    assert!(removed.len() == touching);
    assert!(e.circuits.len() == n0 - touching);
    assert!(e.circuits.circuits.values().all(|x| !((x.src_peer_id == p && x.src_connection_id == c) || (x.dst_peer_id == p && x.dst_connection_id == c))));
    // ids are never reused
    let id1 = e.circuits.insert(Circuit { status: CircuitStatus::Accepting, src_peer_id: p, src_connection_id: c, dst_peer_id: p, dst_connection_id: c });
    let id2 = e.circuits.insert(Circuit { status: CircuitStatus::Accepting, src_peer_id: p, src_connection_id: c, dst_peer_id: p, dst_connection_id: c });
    assert!(id1 != id2);
    assert!(e.circuits.remove(id1).is_some());
    assert!(e.circuits.remove(id1).is_none());
}

/// Vacuity canary: must FAIL.
#[kani::proof]
#[kani::unwind(8)]
fn canary_reservations_always_denied() {
    let mut e = any_reservation_env();
    kani::assume(inv_reservations(&e));
    let ep = some_endpoint();
    let now: Instant = unsafe { std::mem::zeroed() };
    assert!(e.deny_reservation(false, any_peer(), &ep, now));
}
