// C47 — relay resource limits.  The admission conditions, the destination lookup and
// the accept statements of Behaviour::on_connection_handler_event are extracted
// verbatim each run (the events themselves carry live streams, so the method cannot
// be called) and become methods of `AdmitEnv`, whose fields are exactly the three
// pieces of Behaviour state those texts use.  Invariant `inv` (from the statement):
//   every peer's ACTIVE reservations <= max_reservations_per_peer, total <= max_reservations,
//   circuits involving any one peer  <= max_circuits_per_peer,     total <= max_circuits.
// Obligation (inductive step): inv(before) and the request is admitted  =>  inv(after),
// one obligation per limit so that a report names the limit that is not kept.
//
// `connections` is a ScanMap (dependency shim, assumed finite-map contract, eager
// iterators, no symbolic indexing); `circuits` is the REAL CircuitsTracker (its HashMap is the
// dependency shim of the shim tree), with cells placed directly by the harness.
use crate::verif_shims::ScanMap;
type ConnMap = ScanMap<ConnectionId, Reservation, 3>;
type PeerMap = ScanMap<PeerId, ConnMap, 3>;

pub(crate) struct AdmitEnv {
    pub(crate) connections: PeerMap,
    pub(crate) circuits: CircuitsTracker,
    pub(crate) config: Config,
}

pub(crate) struct Req(pub(crate) PeerId);
impl Req {
    pub(crate) fn dst(&self) -> PeerId {
        self.0
    }
}

include!(concat!(env!("LIBP2P_VERIF_GEN"), "/C47/admission_fragment.rs"));

const PEERS: u8 = 3;
const CONNS: u8 = 3;

fn peer(b: u8) -> PeerId {
    PeerId::from_multihash(libp2p_core::multihash::Multihash::<64>::wrap(0, &[b]).unwrap()).unwrap()
}
fn cid(c: u8) -> ConnectionId {
    ConnectionId::new_unchecked(c as usize)
}
fn any_peer_ix() -> u8 {
    let b: u8 = kani::any();
    kani::assume(b < PEERS);
    b
}
fn any_conn_ix() -> u8 {
    let c: u8 = kani::any();
    kani::assume(c < CONNS);
    c
}

/// every limit is an arbitrary usize
fn any_config() -> Config {
    Config {
        max_reservations: kani::any(),
        max_reservations_per_peer: kani::any(),
        reservation_duration: Duration::from_secs(1),
        reservation_rate_limiters: Vec::new(),
        max_circuits: kani::any(),
        max_circuits_per_peer: kani::any(),
        max_circuit_duration: Duration::from_secs(1),
        max_circuit_bytes: 1,
        circuit_src_rate_limiters: Vec::new(),
    }
}

fn any_status() -> Reservation {
    if kani::any() { Reservation::Active } else { Reservation::None }
}

/// an arbitrary map connection -> status with at most `nc` entries (keys distinct, any slots)
fn any_conn_map(nc: usize) -> ConnMap {
    let k: [u8; 3] = [any_conn_ix(), any_conn_ix(), any_conn_ix()];
    kani::assume(k[0] != k[1] && k[0] != k[2] && k[1] != k[2]);
    let c0 = if nc > 0 && kani::any() { Some((cid(k[0]), any_status())) } else { None };
    let c1 = if nc > 1 && kani::any() { Some((cid(k[1]), any_status())) } else { None };
    let c2 = if nc > 2 && kani::any() { Some((cid(k[2]), any_status())) } else { None };
    ConnMap::from_cells([c0, c1, c2])
}

/// an arbitrary map peer -> (connection -> status) with at most `np` peers x `nc` connections
fn any_peer_map(np: usize, nc: usize) -> PeerMap {
    let k: [u8; 3] = [any_peer_ix(), any_peer_ix(), any_peer_ix()];
    kani::assume(k[0] != k[1] && k[0] != k[2] && k[1] != k[2]);
    let c0 = if np > 0 && kani::any() { Some((peer(k[0]), any_conn_map(nc))) } else { None };
    let c1 = if np > 1 && kani::any() { Some((peer(k[1]), any_conn_map(nc))) } else { None };
    let c2 = if np > 2 && kani::any() { Some((peer(k[2]), any_conn_map(nc))) } else { None };
    PeerMap::from_cells([c0, c1, c2])
}

// ---- the invariant, counted by the harness independently of the admission text ----

fn active_of(e: &AdmitEnv, p: &PeerId) -> usize {
    let mut n = 0;
    let mut i = 0;
    while i < 3 {
        if let Some((k, cs)) = &e.connections.slots[i] {
            if k == p {
                let mut j = 0;
                while j < 3 {
                    if let Some((_, s)) = &cs.slots[j] {
                        if s.is_active() {
                            n += 1;
                        }
                    }
                    j += 1;
                }
            }
        }
        i += 1;
    }
    n
}
fn total_active(e: &AdmitEnv) -> usize {
    let mut n = 0;
    let mut b = 0;
    while b < PEERS {
        n += active_of(e, &peer(b));
        b += 1;
    }
    n
}
fn per_peer_reservations_ok(e: &AdmitEnv) -> bool {
    let m = e.config.max_reservations_per_peer;
    let mut ok = true;
    let mut b = 0;
    while b < PEERS {
        ok = ok && active_of(e, &peer(b)) <= m;
        b += 1;
    }
    ok
}
fn inv_reservations(e: &AdmitEnv) -> bool {
    per_peer_reservations_ok(e) && total_active(e) <= e.config.max_reservations
}

fn circuits_of(e: &AdmitEnv, p: PeerId) -> usize {
    let mut n = 0;
    let mut i = 0;
    while i < 4 {
        if let Some((_, c)) = &e.circuits.circuits.slots[i] {
            if c.src_peer_id == p || c.dst_peer_id == p {
                n += 1;
            }
        }
        i += 1;
    }
    n
}
fn total_circuits(e: &AdmitEnv) -> usize {
    let mut n = 0;
    let mut i = 0;
    while i < 4 {
        if e.circuits.circuits.slots[i].is_some() {
            n += 1;
        }
        i += 1;
    }
    n
}
fn inv_circuits(e: &AdmitEnv) -> bool {
    let m = e.config.max_circuits_per_peer;
    let mut ok = total_circuits(e) <= e.config.max_circuits;
    let mut b = 0;
    while b < PEERS {
        ok = ok && circuits_of(e, peer(b)) <= m;
        b += 1;
    }
    ok
}

// ---- states ----

/// reservation side (the reservation admission text does not read `circuits`):
/// ANY map of <=3 peers x <=3 connections each with Active/None statuses
fn any_reservation_env() -> AdmitEnv {
    AdmitEnv { connections: any_peer_map(3, 3), circuits: CircuitsTracker::default(), config: any_config() }
}

fn any_circuit() -> Circuit {
    Circuit {
        status: if kani::any() { CircuitStatus::Accepting } else { CircuitStatus::Accepted },
        src_peer_id: peer(any_peer_ix()),
        src_connection_id: cid(any_conn_ix()),
        dst_peer_id: peer(any_peer_ix()),
        dst_connection_id: cid(any_conn_ix()),
    }
}

/// circuit side: the real CircuitsTracker holding ANY <=3 circuits (arbitrary endpoints
/// over 3 peers x 3 connection ids, ids distinct and below next_id as `insert` keeps
/// them); `connections` (read only by the destination lookup) is any map of <=2 peers
/// x <=2 connections
fn any_circuit_env() -> AdmitEnv {
    let mut t = CircuitsTracker::default();
    let ids: [u64; 3] = kani::any();
    let next: u64 = kani::any();
    kani::assume(ids[0] != ids[1] && ids[0] != ids[2] && ids[1] != ids[2]);
    // (`next_id + 1` must be representable: fewer than 2^64 - 2 circuits were ever created)
    kani::assume(ids[0] < next && ids[1] < next && ids[2] < next && next < u64::MAX - 2);
    t.next_id = CircuitId(next);
    // any three of the four cells of the dependency shim may be occupied
    let hole: u8 = kani::any();
    kani::assume(hole < 4);
    let mut j = 0;
    let mut i = 0;
    while i < 4 {
        if i != hole as usize {
            if kani::any() {
                t.circuits.slots[i] = Some((CircuitId(ids[j]), any_circuit()));
            }
            j += 1;
        }
        i += 1;
    }
    AdmitEnv { connections: any_peer_map(2, 2), circuits: t, config: any_config() }
}

fn some_endpoint() -> ConnectedPoint {
    ConnectedPoint::Listener { local_addr: Multiaddr::empty(), send_back_addr: Multiaddr::empty() }
}

// ---- one admission step ----

fn admit_reservation(e: &mut AdmitEnv) -> Option<(PeerId, ConnectionId)> {
    let src = peer(any_peer_ix());
    let conn = cid(any_conn_ix());
    let renewed: bool = kani::any();
    // a renewal comes from a connection that already holds an active reservation
    // (the handler reports `renewed` only while its own reservation timer runs)
    let holds = e.connections.get(&src).and_then(|cs| cs.get(&conn)).map_or(false, |s| s.is_active());
    kani::assume(!renewed || holds);
    let ep = some_endpoint();
    let now: Instant = unsafe { std::mem::zeroed() };
    let deny = e.deny_reservation(renewed, src, &ep, now);
    std::mem::forget(ep);
    kani::cover!(!deny);
    kani::cover!(deny);
    if deny {
        return None;
    }
    e.accept_reservation(src, conn);
    Some((src, conn))
}

/// reservation request admitted => no peer holds more active reservations than max_reservations_per_peer
#[kani::proof]
#[kani::unwind(8)]
fn reservation_admission_keeps_per_peer_limit() {
    let mut e = any_reservation_env();
    kani::assume(inv_reservations(&e));
    if let Some((src, conn)) = admit_reservation(&mut e) {
        assert!(e.connections.get(&src).and_then(|cs| cs.get(&conn)).map_or(false, |s| s.is_active()));
        kani::assert(
            per_peer_reservations_ok(&e),
            "C47: a peer holds more active reservations than max_reservations_per_peer",
        );
    }
    std::mem::forget(e);
}

/// reservation request admitted => total active reservations <= max_reservations
#[kani::proof]
#[kani::unwind(8)]
fn reservation_admission_keeps_total_limit() {
    let mut e = any_reservation_env();
    kani::assume(inv_reservations(&e));
    if admit_reservation(&mut e).is_some() {
        kani::assert(
            total_active(&e) <= e.config.max_reservations,
            "C47: more active reservations than max_reservations",
        );
    }
    std::mem::forget(e);
}

fn admit_circuit(e: &mut AdmitEnv) -> Option<(PeerId, PeerId)> {
    let src = peer(any_peer_ix());
    let dst = peer(any_peer_ix());
    let conn = cid(any_conn_ix());
    let ep = some_endpoint();
    let now: Instant = unsafe { std::mem::zeroed() };
    let n0 = total_circuits(e);
    let req = Req(dst);
    let deny = e.deny_circuit(src, &ep, &req, now);
    std::mem::forget(ep);
    if deny {
        return None;
    }
    // accepted only if the destination holds an active reservation (same `else if let`)
    let dst_conn = match e.find_destination(&req) {
        Some((c, st)) => {
            assert!(st.is_active());
            *c
        }
        None => return None,
    };
    let id = e.accept_circuit(src, conn, &req, &dst_conn);
    assert!(total_circuits(e) == n0 + 1);
    assert!(e.circuits.circuits.contains_key(&id));
    kani::cover!(true);
    Some((src, dst))
}

/// circuit admitted => circuits involving the SOURCE peer <= max_circuits_per_peer
#[kani::proof]
#[kani::unwind(8)]
fn circuit_admission_keeps_source_per_peer_limit() {
    let mut e = any_circuit_env();
    kani::assume(inv_circuits(&e));
    if let Some((src, _dst)) = admit_circuit(&mut e) {
        kani::assert(
            circuits_of(&e, src) <= e.config.max_circuits_per_peer,
            "C47: more circuits involve the source peer than max_circuits_per_peer",
        );
    }
    std::mem::forget(e);
}

/// circuit admitted => circuits involving the DESTINATION peer <= max_circuits_per_peer
#[kani::proof]
#[kani::unwind(8)]
fn circuit_admission_keeps_destination_per_peer_limit() {
    let mut e = any_circuit_env();
    kani::assume(inv_circuits(&e));
    if let Some((_src, dst)) = admit_circuit(&mut e) {
        kani::assert(
            circuits_of(&e, dst) <= e.config.max_circuits_per_peer,
            "C47: more circuits involve the destination peer than max_circuits_per_peer",
        );
    }
    std::mem::forget(e);
}

/// circuit admitted => total <= max_circuits, and peers that are neither source nor
/// destination keep their count
#[kani::proof]
#[kani::unwind(8)]
fn circuit_admission_keeps_total_limit() {
    let mut e = any_circuit_env();
    kani::assume(inv_circuits(&e));
    let before = [circuits_of(&e, peer(0)), circuits_of(&e, peer(1)), circuits_of(&e, peer(2))];
    if let Some((src, dst)) = admit_circuit(&mut e) {
        kani::assert(total_circuits(&e) <= e.config.max_circuits, "C47: more circuits than max_circuits");
        let mut b = 0u8;
        while b < PEERS {
            if peer(b) != src && peer(b) != dst {
                assert!(circuits_of(&e, peer(b)) == before[b as usize]);
            }
            b += 1;
        }
    }
    std::mem::forget(e);
}

/// CircuitsTracker: map contracts (what the admission text relies on)
#[kani::proof]
#[kani::unwind(8)]
fn circuits_tracker_contracts() {
    let mut e = any_circuit_env();
    let p = peer(any_peer_ix());
    let c = cid(any_conn_ix());
    let n0 = total_circuits(&e);
    // num_circuits_of_peer counts source OR destination; len counts all
    assert!(e.circuits.num_circuits_of_peer(p) == circuits_of(&e, p));
    assert!(e.circuits.len() == n0);
    let mut touching = 0;
    let mut i = 0;
    while i < 4 {
        if let Some((_, x)) = &e.circuits.circuits.slots[i] {
            if (x.src_peer_id == p && x.src_connection_id == c) || (x.dst_peer_id == p && x.dst_connection_id == c) {
                touching += 1;
            }
        }
        i += 1;
    }
    let removed = e.circuits.remove_by_connection(p, c);
    // exactly the circuits using that connection (as source or destination) go away
    assert!(removed.len() == touching);
    assert!(total_circuits(&e) == n0 - touching);
    let mut i = 0;
    while i < 4 {
        if let Some((_, x)) = &e.circuits.circuits.slots[i] {
            assert!(!((x.src_peer_id == p && x.src_connection_id == c) || (x.dst_peer_id == p && x.dst_connection_id == c)));
        }
        i += 1;
    }
    std::mem::forget(removed);
    std::mem::forget(e);
}

/// CircuitsTracker: ids are never reused, remove releases exactly that circuit
#[kani::proof]
#[kani::unwind(8)]
fn circuits_tracker_ids_fresh() {
    let mut e = any_circuit_env();
    kani::assume(total_circuits(&e) <= 2);
    let n0 = total_circuits(&e);
    let id1 = e.circuits.insert(any_circuit());
    let id2 = e.circuits.insert(any_circuit());
    assert!(id1 != id2);
    assert!(total_circuits(&e) == n0 + 2);
    assert!(e.circuits.remove(id1).is_some());
    assert!(e.circuits.remove(id1).is_none());
    assert!(total_circuits(&e) == n0 + 1);
    std::mem::forget(e);
}

/// Vacuity canary: must FAIL (some reservation request is admitted).
#[kani::proof]
#[kani::unwind(8)]
fn canary_reservations_always_denied() {
    let mut e = any_reservation_env();
    kani::assume(inv_reservations(&e));
    assert!(admit_reservation(&mut e).is_none());
    std::mem::forget(e);
}

/// Vacuity canary: must FAIL (some circuit request is admitted).
#[kani::proof]
#[kani::unwind(8)]
fn canary_circuits_never_admitted() {
    let mut e = any_circuit_env();
    kani::assume(inv_circuits(&e));
    assert!(admit_circuit(&mut e).is_none());
    std::mem::forget(e);
}
