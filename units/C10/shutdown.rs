// C10 — idle shutdown.
include!(concat!(env!("LIBP2P_VERIF"), "/shims/tracing_off.rs"));

/// An inert `Delay` (no timer registered).  futures_timer::Delay::new spawns a
/// helper thread, which Kani does not support; compute_new_shutdown never polls
/// the delay it creates, so an inert value is observationally equivalent here.
fn mock_delay_new(_d: Duration) -> Delay {
    unsafe { std::mem::zeroed() }
}

// distinctive initial values (see shims/clock.rs: Kani deduplicated a zero std constant onto a
// zero-initialised `static mut`); every harness sets the clock before reading it
static mut NOW_SECS: u64 = 0x5EED_0C10_5EED_0C10;
static mut NOW_NANOS: u32 = 0x0C10_5EED;

fn zero_instant() -> Instant {
    unsafe { std::mem::zeroed() }
}

fn mock_now() -> Instant {
    unsafe { zero_instant() + Duration::new(NOW_SECS, NOW_NANOS) }
}

fn set_clock() {
    unsafe {
        NOW_SECS = kani::any();
        NOW_NANOS = kani::any();
        kani::assume(NOW_SECS <= (i64::MAX as u64) - 1);
        kani::assume(NOW_NANOS < 1_000_000_000);
    }
}

fn any_shutdown() -> (u8, Shutdown) {
    let k: u8 = kani::any();
    kani::assume(k < 3);
    let s = match k {
        0 => Shutdown::None,
        1 => Shutdown::Asap,
        _ => Shutdown::Later(mock_delay_new(Duration::ZERO)),
    };
    (k, s)
}

/// Contract of compute_new_shutdown from the statement:
///  keep_alive            => Some(None)           (never shut down)
///  !keep_alive, idle = 0 => Some(Asap)
///  !keep_alive, Later    => None                 (running timer untouched: never re-armed, never shortened)
///  otherwise             => Some(Later(_))       (a timer is armed)
tracing_off! {
#[kani::proof]
#[kani::unwind(100)]
#[kani::stub(futures_timer::Delay::new, mock_delay_new)]
#[kani::stub(std::time::Instant::now, mock_now)]
fn contract_compute_new_shutdown() {
    set_clock();
    let keep_alive: bool = kani::any();
    let (k, cur) = any_shutdown();
    let idle = Duration::new(kani::any(), kani::any::<u32>() % 1_000_000_000);
    let r = compute_new_shutdown(keep_alive, &cur, idle);
    if keep_alive {
        assert!(matches!(r, Some(Shutdown::None)));
    } else if idle == Duration::ZERO {
        assert!(matches!(r, Some(Shutdown::Asap)));
    } else if k == 2 {
        assert!(r.is_none());
    } else {
        assert!(matches!(r, Some(Shutdown::Later(_))));
    }
    std::mem::forget(r);
    std::mem::forget(cur);
}
}

/// checked_add_fraction(start, d): the result r satisfies r <= d, start + r is
/// representable, and r == d whenever start + d already is (no needless
/// shortening).  Full Duration domain, any representable start.
tracing_off! {
#[kani::proof]
#[kani::unwind(100)]
fn contract_checked_add_fraction() {
    set_clock();
    let start = mock_now();
    let d = Duration::new(kani::any(), kani::any::<u32>() % 1_000_000_000);
    let r = checked_add_fraction(start, d);
    assert!(r <= d);
    assert!(start.checked_add(r).is_some());
    if start.checked_add(d).is_some() {
        assert!(r == d);
    }
    if d > Duration::ZERO && start.checked_add(d).is_some() {
        assert!(r > Duration::ZERO);
    }
}
}

// ---- the shutdown decision block of Connection::poll ------------------------
pub(crate) struct Emp(pub(crate) bool);
impl Emp {
    pub(crate) fn is_empty(&self) -> bool {
        self.0
    }
}
pub(crate) struct KeepAlive(pub(crate) bool);
impl KeepAlive {
    pub(crate) fn connection_keep_alive(&self) -> bool {
        self.0
    }
}

static mut DELAY_FIRES: bool = false;
static mut DELAY_POLLED: bool = false;
fn mock_delay_poll(_d: Pin<&mut Delay>, _cx: &mut Context<'_>) -> Poll<()> {
    unsafe {
        DELAY_POLLED = true;
        if DELAY_FIRES { Poll::Ready(()) } else { Poll::Pending }
    }
}

include!(concat!(env!("LIBP2P_VERIF_GEN"), "/C10/poll_shutdown_fragment.rs"));

/// The *contract* of compute_new_shutdown (proved of the real function by
/// `contract_compute_new_shutdown`), used in place of its body when checking
/// the caller: modular reasoning, the caller sees only the contract.
fn compute_new_shutdown_contract(keep_alive: bool, cur: &Shutdown, idle: Duration) -> Option<Shutdown> {
    if keep_alive {
        Some(Shutdown::None)
    } else if idle == Duration::ZERO {
        Some(Shutdown::Asap)
    } else if matches!(cur, Shutdown::Later(_)) {
        None
    } else {
        Some(Shutdown::Later(mock_delay_new(idle)))
    }
}

fn noop_cx_run<R>(f: impl FnOnce(&mut Context<'_>) -> R) -> R {
    let w = futures::task::noop_waker();
    let mut cx = Context::from_waker(&w);
    f(&mut cx)
}

/// KeepAliveTimeout can be returned only when all four busy indicators say
/// "idle" and the handler does not ask for keep-alive; any busy indicator forces
/// Shutdown::None (a pending idle timer is cancelled); a running timer is polled
/// but never re-armed.
tracing_off! {
#[kani::proof]
#[kani::unwind(3)]
#[kani::stub(futures_timer::Delay::new, mock_delay_new)]
#[kani::stub(std::time::Instant::now, mock_now)]
#[kani::stub(<futures_timer::Delay as std::future::Future>::poll, mock_delay_poll)]
#[kani::stub(compute_new_shutdown, compute_new_shutdown_contract)]
fn contract_poll_shutdown_block() {
    set_clock();
    unsafe { DELAY_FIRES = kani::any(); DELAY_POLLED = false; }
    let (n_in, n_out, req) = (Emp(kani::any()), Emp(kani::any()), Emp(kani::any()));
    let counter = ActiveStreamCounter::default();
    let extra: Option<ActiveStreamCounter> = if kani::any() { Some(counter.clone()) } else { None };
    let handler = KeepAlive(kani::any());
    let (k, mut shutdown) = any_shutdown();
    let idle = Duration::new(kani::any(), kani::any::<u32>() % 1_000_000_000);
    let all_idle = n_in.0 && n_out.0 && req.0 && extra.is_none();
    let r = noop_cx_run(|cx| shutdown_fragment(&n_in, &n_out, &req, &counter, &handler, &mut shutdown, &idle, cx));
    let timed_out = matches!(r, Poll::Ready(Err(ConnectionError::KeepAliveTimeout)));
    assert!(timed_out || matches!(r, Poll::Pending));
    if !all_idle {
        assert!(!timed_out);
        assert!(matches!(shutdown, Shutdown::None));
    }
    if handler.0 {
        assert!(!timed_out);
        assert!(matches!(shutdown, Shutdown::None));
    }
    if timed_out {
        assert!(all_idle && !handler.0);
        // immediately only with a zero idle timeout, otherwise only because a timer fired
        assert!(idle == Duration::ZERO || unsafe { DELAY_POLLED && DELAY_FIRES });
    }
    if all_idle && !handler.0 && idle > Duration::ZERO && k == 2 {
        // a running timer keeps running
        assert!(matches!(shutdown, Shutdown::Later(_)));
    }
    if all_idle && !handler.0 && idle == Duration::ZERO {
        assert!(timed_out);
    }
    std::mem::forget(shutdown);
    std::mem::forget(r);
    drop(extra);
}
}

/// ActiveStreamCounter: "no active streams" <=> no clone other than the
/// connection's own is alive (up to 3 stream clones).
#[kani::proof]
fn contract_active_stream_counter() {
    let own = ActiveStreamCounter::default();
    assert!(own.has_no_active_streams());
    let a = if kani::any() { Some(own.clone()) } else { None };
    let b = if kani::any() { Some(own.clone()) } else { None };
    let c = if kani::any() { Some(a.as_ref().unwrap_or(&own).clone()) } else { None };
    let alive = a.is_some() as usize + b.is_some() as usize + c.is_some() as usize;
    assert!(own.has_no_active_streams() == (alive == 0));
    drop(a);
    drop(b);
    drop(c);
    assert!(own.has_no_active_streams());
}

/// Vacuity canary: must FAIL.
tracing_off! {
#[kani::proof]
#[kani::unwind(100)]
#[kani::stub(futures_timer::Delay::new, mock_delay_new)]
#[kani::stub(std::time::Instant::now, mock_now)]
fn canary_shutdown_always_none() {
    set_clock();
    let keep_alive: bool = kani::any();
    let (_, cur) = any_shutdown();
    let r = compute_new_shutdown(keep_alive, &cur, Duration::ZERO);
    assert!(matches!(r, Some(Shutdown::None)));
    std::mem::forget(r);
    std::mem::forget(cur);
}
}
