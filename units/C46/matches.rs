// C46 (clause 3) — identify never reports listen addresses that name a different
// /p2p peer.  Mechanism: `multiaddr_matches_peer_id(addr, peer)` and the `retain`
// statement of `Behaviour::on_connection_handler_event(Identified)` that applies
// it to `info.listen_addrs` before the `Event::Received` is generated.
//
// Contract from the statement: an address "names a different peer" when its LAST
// component is /p2p/<q> with q != peer (a /p2p in the middle is a relay hop, not
// the addressee).  So
//     multiaddr_matches_peer_id(addr, peer) == false  <=>  last(addr) == P2p(q), q != peer
// and after the filter statement `listen_addrs` holds exactly the addresses that
// do not name a different peer, in their original order.
//
// Group "seq": both texts are extracted verbatim on every run and compiled against
// the stand-ins of units/C46/model.rs (Multiaddr = finite sequence of a 5-variant
// component enum, PeerId = 256 identifiers): ANY address of <= 4 components.
// Measured: on the real `Multiaddr` with a symbolic /p2p component every harness
// (one concrete 3-component shape included) exceeds 300 s at machine load ~30.

pub(crate) mod seq {
    pub(crate) mod model {
        include!(concat!(env!("LIBP2P_VERIF"), "/units/C46/model.rs"));
    }
    use self::model::{Multiaddr, PeerId, Protocol};
    // the extracted text names the component type by the path `multiaddr::Protocol`
    mod multiaddr {
        pub(crate) use super::model::Protocol;
    }

    pub(crate) struct InfoEnv {
        pub(crate) listen_addrs: Vec<Multiaddr>,
    }
    // <verbatim fn item multiaddr_matches_peer_id>
    // fn filter_listen_addrs(info: &mut InfoEnv, peer_id: PeerId) { <verbatim retain statement> }
    include!(concat!(env!("LIBP2P_VERIF_GEN"), "/C46/filter_stmt.rs"));

    fn any_component() -> Protocol {
        let k: u8 = kani::any();
        match k {
            0 => Protocol::Ip4(kani::any()),
            1 => Protocol::Ip6(kani::any()),
            2 => Protocol::P2p(PeerId(kani::any())),
            3 => Protocol::P2pCircuit,
            _ => Protocol::Other(kani::any(), kani::any()),
        }
    }
    fn any_addr(max: usize) -> Multiaddr {
        let n: usize = kani::any();
        kani::assume(n <= max);
        let mut a = Multiaddr::empty();
        let mut i = 0;
        while i < max {
            if i < n {
                a.push(any_component());
            }
            i += 1;
        }
        a
    }
    /// the statement's notion, written independently: last component is /p2p/<q>, q != peer
    fn names_a_different_peer(a: &Multiaddr, peer: PeerId) -> bool {
        let mut last = None;
        for p in a.iter() {
            last = Some(p);
        }
        matches!(last, Some(Protocol::P2p(q)) if q != peer)
    }

    /// any address of <= 4 components: false <=> it names a different peer
    #[kani::proof]
    #[kani::unwind(7)]
    fn matches_is_false_iff_last_component_names_another_peer() {
        let a = any_addr(4);
        let me = PeerId(kani::any());
        let r = multiaddr_matches_peer_id(&a, &me);
        kani::cover!(r && a.len() == 4);
        kani::cover!(!r);
        assert!(r == !names_a_different_peer(&a, me));
    }

    /// relayed address .../p2p/<relay>/p2p-circuit/p2p/<q>: the relay's id does not count
    #[kani::proof]
    #[kani::unwind(7)]
    fn relayed_address_is_judged_by_its_last_component() {
        let (relay, q, me) = (PeerId(kani::any()), PeerId(kani::any()), PeerId(kani::any()));
        let a = Multiaddr::empty().with(any_component()).with(Protocol::P2p(relay)).with(Protocol::P2pCircuit).with(Protocol::P2p(q));
        assert!(multiaddr_matches_peer_id(&a, &me) == (q == me));
        let b = Multiaddr::empty().with(any_component()).with(Protocol::P2p(relay)).with(Protocol::P2pCircuit);
        assert!(multiaddr_matches_peer_id(&b, &me));
    }

    /// the filter statement of on_connection_handler_event on ANY two listen addresses:
    /// what is reported afterwards contains no address naming a different peer, and
    /// every other address is still there, in order
    #[kani::proof]
    #[kani::unwind(7)]
    fn reported_listen_addrs_never_name_a_different_peer() {
        let me = PeerId(kani::any());
        let (a1, a2) = (any_addr(2), any_addr(2));
        let (k1, k2) = (!names_a_different_peer(&a1, me), !names_a_different_peer(&a2, me));
        let mut info = InfoEnv { listen_addrs: vec![a1.clone(), a2.clone()] };
        filter_listen_addrs(&mut info, me);
        let l = &info.listen_addrs;
        kani::cover!(l.len() == 0);
        kani::cover!(l.len() == 2);
        assert!(l.len() == k1 as usize + k2 as usize, "a listen address naming a different peer is still reported, or another one was dropped");
        if k1 {
            assert!(l[0] == a1);
        }
        if k2 {
            assert!(l[k1 as usize] == a2);
        }
    }

    /// Vacuity canary: must FAIL.
    #[kani::proof]
    #[kani::unwind(7)]
    fn canary_every_address_matches() {
        assert!(multiaddr_matches_peer_id(&any_addr(4), &PeerId(kani::any())));
    }
}
