// C46 (clause 3) — identify never reports listen addresses that name a different
// /p2p peer.  Mechanism: `multiaddr_matches_peer_id(addr, peer)` and the `retain`
// statement of `Behaviour::on_connection_handler_event(Identified)` that applies
// it to `info.listen_addrs` before the `Event::Received` is generated.
//
// Contract from the statement: an address "names a different peer" when its LAST
// component is /p2p/<q> with q != peer (a /p2p in the middle is a relay hop, not
// the addressee).  So
//     multiaddr_matches_peer_id(addr, peer) == false  <=>  last(addr) == P2p(q), q != peer
// and after the filter statement `listen_addrs` holds exactly the addresses that
// do not name a different peer, in their original order.
// Real function, real `Multiaddr`; address SHAPES are enumerated, payloads (IPs,
// ports, peer ids over 256 values) symbolic.

use std::net::Ipv4Addr;

fn peer(b: u8) -> PeerId {
    PeerId::from_multihash(libp2p_core::multihash::Multihash::<64>::wrap(0, &[b]).unwrap()).unwrap()
}
fn ip_tcp() -> Multiaddr {
    Multiaddr::empty().with(Protocol::Ip4(Ipv4Addr::from(kani::any::<u32>()))).with(Protocol::Tcp(kani::any()))
}

pub(crate) struct InfoEnv {
    pub(crate) listen_addrs: Vec<Multiaddr>,
}
// fn filter_listen_addrs(info: &mut InfoEnv, peer_id: PeerId) { <verbatim retain statement> }
include!(concat!(env!("LIBP2P_VERIF_GEN"), "/C46/filter_stmt.rs"));

/// /ip4/x/tcp/p/p2p/q : false <=> q != peer
#[kani::proof]
#[kani::unwind(20)]
fn trailing_p2p_matches_iff_same_peer() {
    let q = peer(kani::any());
    let me = peer(kani::any());
    let a = ip_tcp().with(Protocol::P2p(q));
    let r = multiaddr_matches_peer_id(&a, &me);
    kani::cover!(r);
    kani::cover!(!r);
    assert!(r == (q == me));
}

/// relayed address /ip4/x/tcp/p/p2p/relay/p2p-circuit/p2p/q : only the LAST /p2p counts
#[kani::proof]
#[kani::unwind(20)]
fn relayed_address_is_judged_by_its_last_component() {
    let relay = peer(kani::any());
    let q = peer(kani::any());
    let me = peer(kani::any());
    let a = ip_tcp().with(Protocol::P2p(relay)).with(Protocol::P2pCircuit).with(Protocol::P2p(q));
    assert!(multiaddr_matches_peer_id(&a, &me) == (q == me));
}

/// last component is not /p2p (plain transport address, address ending in /p2p-circuit
/// after a relay's id, empty address): never refused
#[kani::proof]
#[kani::unwind(20)]
fn address_without_trailing_p2p_is_kept() {
    let me = peer(kani::any());
    assert!(multiaddr_matches_peer_id(&ip_tcp(), &me));
    assert!(multiaddr_matches_peer_id(&ip_tcp().with(Protocol::P2p(peer(kani::any()))).with(Protocol::P2pCircuit), &me));
    assert!(multiaddr_matches_peer_id(&Multiaddr::empty(), &me));
}

/// the filter statement of on_connection_handler_event: what is reported afterwards
/// contains no address naming a different peer, and drops nothing else
#[kani::proof]
#[kani::unwind(20)]
fn reported_listen_addrs_never_name_a_different_peer() {
    let me = peer(kani::any());
    let q1 = peer(kani::any());
    let q2 = peer(kani::any());
    let a1 = ip_tcp().with(Protocol::P2p(q1));
    let a2 = ip_tcp();
    let a3 = ip_tcp().with(Protocol::P2p(q2));
    let mut info = InfoEnv { listen_addrs: vec![a1.clone(), a2.clone(), a3.clone()] };
    filter_listen_addrs(&mut info, me);
    // exactly the addresses that do not name a different peer, in their original order
    let l = &info.listen_addrs;
    let (k1, k2) = (q1 == me, q2 == me);
    kani::cover!(!k1 && !k2);
    kani::cover!(k1 && k2);
    assert!(l.len() == 1 + k1 as usize + k2 as usize, "an address naming a different peer is still reported, or a good one was dropped");
    let mut i = 0;
    if k1 {
        assert!(l[i] == a1);
        i += 1;
    }
    assert!(l[i] == a2);
    i += 1;
    if k2 {
        assert!(l[i] == a3);
    }
    std::mem::forget(info);
}

/// Vacuity canary: must FAIL.
#[kani::proof]
#[kani::unwind(20)]
fn canary_every_address_matches() {
    let a = ip_tcp().with(Protocol::P2p(peer(kani::any())));
    assert!(multiaddr_matches_peer_id(&a, &peer(kani::any())));
}
