// Stand-ins used by the C46 fragment group for the dependency types the text
// of `multiaddr_matches_peer_id` and the listen-address filter statement mention (measured: with the real `multiaddr::Protocol`
// enum — 40 variants, Cow<str> payloads, 73-byte PeerId — even ONE concrete
// address shape does not finish in 400 s; with these it takes seconds).
//
// ASSUMED CONTRACT replaced by this file (goes into trusted_base):
//   * `Multiaddr` is a finite sequence of `Protocol` values: `iter()` /
//     `(&a).into_iter()` yield the components in order, `push(p)` appends,
//     `replace(at, by)` = copy with component `at` replaced by `by(&old)`, `None`
//     when `at` is out of range or `by` yields `None` (control flow copied from
//     multiaddr-0.19 `Multiaddr::replace`), `==` is component-wise equality
//     (the byte encoding is injective);
//   * `Protocol`: the function only distinguishes Ip4 / Ip6 / P2p / P2pCircuit and
//     treats every other component kind alike; `Other(kind, payload)` stands for all
//     of them (Tcp, Udp, Dns*, QuicV1, ...);
//   * `PeerId` is an equality-comparable identifier (256 values here).
// Byte-level functions (to_vec, TryFrom<Vec<u8>>, FromStr, Display) are
// deliberately absent: extracted text that reaches them does not compile (exit 2).

pub(crate) const SEQ_CAP: usize = 5;

#[derive(Clone, Copy, PartialEq, Eq)]
pub(crate) struct PeerId(pub(crate) u8);

#[derive(Clone, Copy, PartialEq, Eq)]
pub(crate) enum Protocol {
    Ip4(u32),
    Ip6(u128),
    P2p(PeerId),
    P2pCircuit,
    Other(u8, u16),
}

#[derive(Clone, PartialEq, Eq)]
pub(crate) struct Multiaddr {
    n: usize,
    c: [Protocol; SEQ_CAP],
}

impl Multiaddr {
    pub(crate) fn empty() -> Self {
        Multiaddr { n: 0, c: [Protocol::P2pCircuit; SEQ_CAP] }
    }
    pub(crate) fn len(&self) -> usize {
        self.n
    }
    pub(crate) fn push(&mut self, p: Protocol) {
        if self.n >= SEQ_CAP {
            panic!("verif shim capacity exceeded");
        }
        self.c[self.n] = p;
        self.n += 1;
    }
    pub(crate) fn with(mut self, p: Protocol) -> Self {
        self.push(p);
        self
    }
    pub(crate) fn iter(&self) -> SeqIter<'_> {
        SeqIter { a: self, i: 0 }
    }
    pub(crate) fn replace<F>(&self, at: usize, by: F) -> Option<Multiaddr>
    where
        F: FnOnce(&Protocol) -> Option<Protocol>,
    {
        let mut address = Multiaddr::empty();
        let mut fun = Some(by);
        let mut replaced = false;
        for (i, p) in self.iter().enumerate() {
            if i == at {
                let f = fun.take().expect("i == at only happens once");
                if let Some(q) = f(&p) {
                    address = address.with(q);
                    replaced = true;
                    continue;
                }
                return None;
            }
            address = address.with(p)
        }
        if replaced { Some(address) } else { None }
    }
}

// (unused tail cells always hold the filler written by `empty()`, so the derived
// equality is equality of the component sequences)

pub(crate) struct SeqIter<'a> {
    a: &'a Multiaddr,
    i: usize,
}

impl<'a> Iterator for SeqIter<'a> {
    type Item = Protocol;
    fn next(&mut self) -> Option<Protocol> {
        if self.i >= self.a.n {
            return None;
        }
        let p = self.a.c[self.i];
        self.i += 1;
        Some(p)
    }
}

impl<'a> IntoIterator for &'a Multiaddr {
    type Item = Protocol;
    type IntoIter = SeqIter<'a>;
    fn into_iter(self) -> SeqIter<'a> {
        self.iter()
    }
}
