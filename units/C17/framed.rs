// C17 — noise length-prefixed framing kernel.
//   encode_length_prefixed(src, dst): dst' = old(dst) ++ be16(len(src)) ++ src        (len <= 65535)
//   decode_length_prefixed(src): fewer than 2+len bytes buffered -> None, src untouched;
//                                otherwise Some(payload) and src advanced by exactly 2+len.

fn buf_from(bytes: &[u8]) -> BytesMut {
    let mut b = BytesMut::with_capacity(16);
    b.extend_from_slice(bytes);
    b
}

#[kani::proof]
#[kani::unwind(8)]
fn contract_encode_length_prefixed() {
    let payload: [u8; 3] = kani::any();
    let n: usize = kani::any();
    kani::assume(n <= 3);
    let pre: u8 = kani::any();
    let mut dst = buf_from(&[pre]);
    encode_length_prefixed(&payload[..n], &mut dst);
    assert!(dst.len() == 1 + 2 + n);
    assert!(dst[0] == pre);
    assert!(dst[1] == 0 && dst[2] == n as u8);
    let mut i = 0;
    while i < n {
        assert!(dst[3 + i] == payload[i]);
        i += 1;
    }
}

/// decode on an arbitrary 5-byte buffer prefix (any claimed length in the full u16 range).
#[kani::proof]
#[kani::unwind(8)]
fn contract_decode_length_prefixed() {
    let raw: [u8; 5] = kani::any();
    let have: usize = kani::any();
    kani::assume(have <= 5);
    let mut src = buf_from(&raw[..have]);
    let claimed = u16::from_be_bytes([raw[0], raw[1]]) as usize;
    let r = decode_length_prefixed(&mut src);
    if have < 2 || have - 2 < claimed {
        // incomplete frame: nothing consumed, nothing returned
        assert!(r.is_none());
        assert!(src.len() == have);
        let mut i = 0;
        while i < have {
            assert!(src[i] == raw[i]);
            i += 1;
        }
    } else {
        match r {
            None => assert!(false),
            Some(p) => {
                assert!(p.len() == claimed);
                let mut i = 0;
                while i < claimed {
                    assert!(p[i] == raw[2 + i]);
                    i += 1;
                }
                // exactly 2 + len consumed; the tail is the start of the next frame
                assert!(src.len() == have - 2 - claimed);
                let mut j = 0;
                while j < src.len() {
                    assert!(src[j] == raw[2 + claimed + j]);
                    j += 1;
                }
            }
        }
    }
}

/// round trip: decode(encode(p)) == p and leaves what followed.
#[kani::proof]
#[kani::unwind(8)]
fn lemma_framing_round_trip() {
    let payload: [u8; 3] = kani::any();
    let n: usize = kani::any();
    kani::assume(n <= 3);
    let mut buf = BytesMut::with_capacity(16);
    encode_length_prefixed(&payload[..n], &mut buf);
    let extra: u8 = kani::any();
    buf.extend_from_slice(&[extra]);
    match decode_length_prefixed(&mut buf) {
        None => assert!(false),
        Some(p) => {
            assert!(p.len() == n);
            let mut i = 0;
            while i < n {
                assert!(p[i] == payload[i]);
                i += 1;
            }
            assert!(buf.len() == 1 && buf[0] == extra);
        }
    }
}

/// Vacuity canary: must FAIL.
#[kani::proof]
#[kani::unwind(8)]
fn canary_decode_always_none() {
    let raw: [u8; 5] = kani::any();
    let mut src = buf_from(&raw);
    assert!(decode_length_prefixed(&mut src).is_none());
}
