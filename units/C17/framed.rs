// C17 — noise length-prefixed framing kernel.
//   encode_length_prefixed(src, dst): dst' = old(dst) ++ be16(len(src)) ++ src        (len <= 65535)
//   decode_length_prefixed(src): fewer than 2+len bytes buffered -> None, src untouched;
//                                otherwise Some(payload) and src advanced by exactly 2+len.
//
// Every harness ends by `mem::forget`-ing the buffers it made: the drop glue of a promoted
// (shared) BytesMut / Bytes (`release_shared` -> `Box<Shared>` -> `Vec` dealloc through a
// pointer rebuilt from integer arithmetic) is what exhausted CBMC's memory in the first
// draft; it is the allocator's business, not the framing functions'.

const BUF: usize = 6; // bytes buffered at most (2-byte header + <= 4 payload bytes)
const PAY: usize = 4;

fn buf_from(bytes: &[u8]) -> BytesMut {
    let mut b = BytesMut::with_capacity(16);
    b.extend_from_slice(bytes);
    b
}

#[kani::proof]
#[kani::unwind(8)]
fn contract_encode_length_prefixed() {
    let payload: [u8; PAY] = kani::any();
    let n: usize = kani::any();
    kani::assume(n <= PAY);
    let pre: u8 = kani::any();
    let mut dst = buf_from(&[pre]);
    encode_length_prefixed(&payload[..n], &mut dst);
    assert!(dst.len() == 1 + 2 + n);
    assert!(dst[0] == pre);
    assert!(dst[1] == 0 && dst[2] == n as u8);
    let mut i = 0;
    while i < n {
        assert!(dst[3 + i] == payload[i]);
        i += 1;
    }
    std::mem::forget(dst);
}

/// decode on an arbitrary buffered prefix of <= BUF bytes (any claimed length in the full
/// u16 range): None + untouched when incomplete, else the payload and exactly 2+len consumed.
#[kani::proof]
#[kani::unwind(8)]
fn contract_decode_length_prefixed() {
    let raw: [u8; BUF] = kani::any();
    let have: usize = kani::any();
    kani::assume(have <= BUF);
    let mut src = buf_from(&raw[..have]);
    let claimed = u16::from_be_bytes([raw[0], raw[1]]) as usize;
    let r = decode_length_prefixed(&mut src);
    kani::cover!(have >= 2 && have - 2 >= claimed && claimed == PAY);
    kani::cover!(have >= 2 && have - 2 < claimed);
    if have < 2 || have - 2 < claimed {
        // incomplete frame: nothing consumed, nothing returned
        assert!(r.is_none());
        assert!(src.len() == have);
        let mut i = 0;
        while i < have {
            assert!(src[i] == raw[i]);
            i += 1;
        }
    } else {
        match &r {
            None => assert!(false),
            Some(p) => {
                assert!(p.len() == claimed);
                let mut i = 0;
                while i < claimed {
                    assert!(p[i] == raw[2 + i]);
                    i += 1;
                }
                // exactly 2 + len consumed; the tail is the start of the next frame
                assert!(src.len() == have - 2 - claimed);
                let mut j = 0;
                while j < src.len() {
                    assert!(src[j] == raw[2 + claimed + j]);
                    j += 1;
                }
            }
        }
    }
    std::mem::forget(r);
    std::mem::forget(src);
}

/// round trip: decode(encode(p) ++ rest) == p and leaves `rest`; one payload length per call
/// (concrete length, symbolic content) so that buffer offsets stay concrete.
fn round_trip<const N: usize>() {
    let payload: [u8; N] = kani::any();
    let mut buf = BytesMut::with_capacity(16);
    encode_length_prefixed(&payload, &mut buf);
    let extra: u8 = kani::any();
    buf.extend_from_slice(&[extra]);
    let r = decode_length_prefixed(&mut buf);
    match &r {
        None => assert!(false),
        Some(p) => {
            assert!(p.len() == N);
            let mut i = 0;
            while i < N {
                assert!(p[i] == payload[i]);
                i += 1;
            }
            assert!(buf.len() == 1 && buf[0] == extra);
        }
    }
    std::mem::forget(r);
    std::mem::forget(buf);
}

#[kani::proof]
#[kani::unwind(8)]
fn lemma_framing_round_trip_short() {
    round_trip::<0>();
    round_trip::<1>();
    round_trip::<2>();
}

#[kani::proof]
#[kani::unwind(8)]
fn lemma_framing_round_trip_long() {
    round_trip::<3>();
    round_trip::<4>();
}

/// Vacuity canary: must FAIL.
#[kani::proof]
#[kani::unwind(8)]
fn canary_decode_always_none() {
    let raw: [u8; BUF] = kani::any();
    let mut src = buf_from(&raw);
    let r = decode_length_prefixed(&mut src);
    assert!(r.is_none());
    std::mem::forget(r);
    std::mem::forget(src);
}
