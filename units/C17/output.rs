// C17 (part 2) — the write path of a noise session: the bodies of
// <Output<T> as AsyncWrite>::{poll_write, poll_flush}, extracted verbatim on every
// run (tracing macros dropped) into methods of `OutEnv`, which has the three pieces of
// `Output` they use: `send_buffer`, `send_offset` and `io` (here a recording sink in
// place of `Framed<T, Codec<TransportState>>`: the AEAD codec is out of reach and is
// not what this clause is about).
//
// From the statement ("each direction delivers exactly the bytes written, in order,
// for any write sizes, including writes larger than one Noise frame"): with
//     pending(s)  = s.send_buffer[.. s.send_offset]
//     delivered   = concatenation of the frames handed to the sink, in order
// every call keeps   delivered' ++ pending'  ==  delivered ++ pending ++ accepted
// (accepted = buf[..n] for poll_write -> Ready(Ok(n)), empty otherwise), every frame
// handed to the sink is non-empty and at most MAX_FRAME_LEN bytes, a completed flush
// leaves nothing pending, and the well-formedness of the buffer is preserved
//     wf(s): send_offset == 0  ||  send_buffer.len() == send_offset,  len <= MAX_FRAME_LEN.
// One step from ANY wf state => by induction, for every sequence of writes and flushes
// the sink receives exactly the accepted bytes, in order, once.
//
// MAX_FRAME_LEN is shadowed by a small constant in this module (the extracted text
// refers to it by name): the logic is parametric in it; the real value (64511) would
// make every buffer 64 KiB.  Listed as assumed in unit.json.
use std::task::{RawWaker, RawWakerVTable, Waker};

const MAX_FRAME_LEN: usize = 3;

pub(crate) struct RecSink {
    /// bytes of all frames received so far, in order
    delivered: [u8; 8],
    n: usize,
    frames: usize,
    last_len: usize,
    ready: bool,
    flushed: bool,
}
impl<'a> Sink<&'a Vec<u8>> for RecSink {
    type Error = io::Error;
    fn poll_ready(self: Pin<&mut Self>, _cx: &mut Context<'_>) -> Poll<io::Result<()>> {
        if self.ready { Poll::Ready(Ok(())) } else { Poll::Pending }
    }
    fn start_send(mut self: Pin<&mut Self>, item: &'a Vec<u8>) -> io::Result<()> {
        assert!(self.ready, "start_send without a successful poll_ready");
        let mut i = 0;
        while i < item.len() {
            let k = self.n;
            if k < 8 {
                self.delivered[k] = item[i];
            }
            self.n = k + 1;
            i += 1;
        }
        self.frames += 1;
        self.last_len = item.len();
        Ok(())
    }
    fn poll_flush(mut self: Pin<&mut Self>, _cx: &mut Context<'_>) -> Poll<io::Result<()>> {
        self.flushed = true;
        Poll::Ready(Ok(()))
    }
    fn poll_close(self: Pin<&mut Self>, _cx: &mut Context<'_>) -> Poll<io::Result<()>> {
        Poll::Ready(Ok(()))
    }
}

pub(crate) struct OutEnv {
    pub(crate) io: RecSink,
    pub(crate) send_buffer: Vec<u8>,
    pub(crate) send_offset: usize,
}

// impl OutEnv { fn poll_write(self: Pin<&mut Self>, cx, buf) -> Poll<io::Result<usize>>; fn poll_flush(self: Pin<&mut Self>, cx) -> Poll<io::Result<()>> }
include!(concat!(env!("LIBP2P_VERIF_GEN"), "/C17/output_write_path.rs"));

fn noop_waker() -> Waker {
    fn clone(_: *const ()) -> RawWaker { RawWaker::new(std::ptr::null(), &VT) }
    fn noop(_: *const ()) {}
    static VT: RawWakerVTable = RawWakerVTable::new(clone, noop, noop, noop);
    unsafe { Waker::from_raw(RawWaker::new(std::ptr::null(), &VT)) }
}

/// a Vec of the given (concrete per branch) length with symbolic content
fn vec_of(len: usize) -> Vec<u8> {
    match len {
        0 => Vec::new(),
        1 => vec![kani::any()],
        2 => vec![kani::any(), kani::any()],
        _ => vec![kani::any(), kani::any(), kani::any()],
    }
}

/// A wf state with a buffer of the given length (content symbolic): `stale` = the buffer was
/// already sent (offset 0, as a completed send leaves it), else all of it is pending.
/// The harnesses enumerate every length 0..=MAX_FRAME_LEN x both kinds, so together they
/// start from ANY wf state.  (Lengths are concrete per case: with a symbolic length the
/// merged `Vec` made CBMC report a failure that neither the concrete Kani run nor the
/// native replay of its own counterexample reproduces.)
fn state_of(len: usize, stale: bool) -> OutEnv {
    OutEnv {
        io: RecSink { delivered: [0; 8], n: 0, frames: 0, last_len: 0, ready: kani::any(), flushed: false },
        send_buffer: vec_of(len),
        send_offset: if stale { 0 } else { len },
    }
}

fn wf(s: &OutEnv) -> bool {
    s.send_buffer.len() <= MAX_FRAME_LEN && (s.send_offset == 0 || s.send_buffer.len() == s.send_offset)
}

/// expected stream after the step = pending_before ++ accepted; must equal delivered' ++ pending'
fn check_stream(s: &OutEnv, before: &[u8; 3], nb: usize, accepted: &[u8], na: usize) {
    let total = nb + na;
    assert!(s.io.n + s.send_offset == total, "bytes lost or duplicated between poll_write/poll_flush and the sink");
    let mut i = 0;
    while i < total && i < 8 {
        let want = if i < nb { before[i] } else { accepted[i - nb] };
        let got = if i < s.io.n { s.io.delivered[i] } else { s.send_buffer[i - s.io.n] };
        assert!(want == got, "the sink plus the pending buffer do not hold the written bytes in order");
        i += 1;
    }
}

fn snapshot(s: &OutEnv) -> ([u8; 3], usize) {
    let mut b = [0u8; 3];
    let mut i = 0;
    while i < s.send_offset {
        b[i] = s.send_buffer[i];
        i += 1;
    }
    (b, s.send_offset)
}

fn write_case(len: usize, stale: bool, blen: usize) {
    let mut s = state_of(len, stale);
    assert!(wf(&s));
    let (before, nb) = snapshot(&s);
    let buf = vec_of(blen);
    let w = noop_waker();
    let mut cx = Context::from_waker(&w);
    let r = Pin::new(&mut s).poll_write(&mut cx, &buf);
    match r {
        Poll::Ready(Ok(n)) => {
            assert!(n <= blen);
            // progress: a non-empty write into a session that can take bytes is not answered with 0
            assert!(n > 0 || blen == 0);
            check_stream(&s, &before, nb, &buf, n);
        }
        Poll::Pending => {
            // nothing was accepted and nothing may have been sent or dropped
            assert!(s.io.frames == 0);
            check_stream(&s, &before, nb, &buf, 0);
        }
        Poll::Ready(Err(_)) => assert!(false),
    }
    assert!(s.io.frames <= 1);
    if s.io.frames == 1 {
        assert!(s.io.last_len > 0 && s.io.last_len <= MAX_FRAME_LEN);
    }
    assert!(wf(&s));
    std::mem::forget((s, buf));
}

#[kani::proof]
#[kani::unwind(10)]
fn output_poll_write_delivers_exactly_what_it_accepts() {
    let mut len = 0;
    while len <= MAX_FRAME_LEN {
        let mut blen = 0;
        while blen <= 3 {
            // up to a whole frame, i.e. also "more than fits"
            write_case(len, false, blen);
            blen += 1;
        }
        len += 1;
    }
}

#[kani::proof]
#[kani::unwind(10)]
fn output_poll_write_ignores_a_stale_buffer() {
    let mut len = 0;
    while len <= MAX_FRAME_LEN {
        let mut blen = 0;
        while blen <= 3 {
            write_case(len, true, blen);
            blen += 1;
        }
        len += 1;
    }
}

#[kani::proof]
#[kani::unwind(10)]
fn output_poll_flush_sends_the_pending_bytes_once() {
    let mut len = 0;
    while len <= MAX_FRAME_LEN {
        flush_case(len, false);
        flush_case(len, true);
        len += 1;
    }
}
fn flush_case(len: usize, stale: bool) {
    let mut s = state_of(len, stale);
    let (before, nb) = snapshot(&s);
    let w = noop_waker();
    let mut cx = Context::from_waker(&w);
    let r = Pin::new(&mut s).poll_flush(&mut cx);
    match r {
        Poll::Ready(Ok(())) => {
            assert!(s.send_offset == 0, "a completed flush left bytes pending");
            assert!(s.io.flushed);
            assert!(s.io.frames == if nb > 0 { 1 } else { 0 });
        }
        Poll::Pending => assert!(s.io.frames == 0 && s.send_offset == nb),
        Poll::Ready(Err(_)) => assert!(false),
    }
    check_stream(&s, &before, nb, &[], 0);
    assert!(wf(&s));
    std::mem::forget(s);
}

/// write, flush, write again (the sequence in which a stale full buffer exists):
/// the second write must not re-send the frame the flush already sent.
#[kani::proof]
#[kani::unwind(10)]
fn output_write_flush_write_sequence() {
    let mut s = OutEnv {
        io: RecSink { delivered: [0; 8], n: 0, frames: 0, last_len: 0, ready: true, flushed: false },
        send_buffer: Vec::new(),
        send_offset: 0,
    };
    let first = vec_of(3); // exactly one full frame
    let second = vec_of(1);
    let w = noop_waker();
    let mut cx = Context::from_waker(&w);
    assert!(matches!(Pin::new(&mut s).poll_write(&mut cx, &first), Poll::Ready(Ok(3))));
    assert!(matches!(Pin::new(&mut s).poll_flush(&mut cx), Poll::Ready(Ok(()))));
    assert!(matches!(Pin::new(&mut s).poll_write(&mut cx, &second), Poll::Ready(Ok(1))));
    assert!(matches!(Pin::new(&mut s).poll_flush(&mut cx), Poll::Ready(Ok(()))));
    assert!(s.io.n == 4 && s.io.frames == 2);
    assert!(s.io.delivered[0] == first[0] && s.io.delivered[1] == first[1] && s.io.delivered[2] == first[2]);
    assert!(s.io.delivered[3] == second[0]);
    std::mem::forget((s, first, second));
}

/// Vacuity canary: must FAIL (a write would never reach the sink).
#[kani::proof]
#[kani::unwind(10)]
fn canary_output_never_sends() {
    let mut s = state_of(2, false);
    let w = noop_waker();
    let mut cx = Context::from_waker(&w);
    let _ = Pin::new(&mut s).poll_flush(&mut cx);
    assert!(s.io.frames == 0);
    std::mem::forget(s);
}
