// C19 — pnet pre-shared key files: parsing any text never panics, and a key
// file parses back to the key it was printed from.

fn hexval(c: u8) -> Option<u8> {
    match c {
        b'0'..=b'9' => Some(c - b'0'),
        b'a'..=b'f' => Some(c - b'a' + 10),
        b'A'..=b'F' => Some(c - b'A' + 10),
        _ => None,
    }
}

fn check_parse(raw: &[u8; 64], s: &str) {
    let r = parse_hex_key(s);
    let mut all_hex = true;
    let mut i = 0;
    while i < 64 {
        if hexval(raw[i]).is_none() {
            all_hex = false;
        }
        i += 1;
    }
    match &r {
        Ok(k) => {
            let mut j = 0;
            while j < 32 {
                let (a, b) = (raw[2 * j], raw[2 * j + 1]);
                // a pair of hex digits is read as its value (what the statement needs for
                // "parses back to the key it was printed from"); the statement is silent on
                // which non-hex texts are refused, so nothing is demanded of them here
                if let (Some(x), Some(y)) = (hexval(a), hexval(b)) {
                    assert!(k[j] == x * 16 + y);
                }
                j += 1;
            }
        }
        Err(_) => assert!(!all_hex),
    }
    std::mem::forget(r);
}

/// parse_hex_key on 64-byte ASCII texts: digits '0' everywhere except ONE digit pair (position
/// J, concrete) made of two arbitrary ASCII bytes.  Never panics; Ok(k) => k[i] is the value of
/// every hex digit pair i; an all-hex text is always accepted (with that exact value).
/// (All 64 bytes symbolic, or a symbolic position, did not terminate: 600 s / 200 s, measured.)
fn ascii_pair_at(j: usize) {
    let mut raw = [b'0'; 64];
    let a: u8 = kani::any();
    let b: u8 = kani::any();
    kani::assume(a < 0x80 && b < 0x80);
    raw[2 * j] = a;
    raw[2 * j + 1] = b;
    kani::cover!(hexval(a).is_some() && hexval(b).is_some());
    // ASCII bytes are valid UTF-8 by definition
    let s = unsafe { std::str::from_utf8_unchecked(&raw) };
    check_parse(&raw, s);
}

#[kani::proof]
#[kani::unwind(66)]
fn contract_parse_hex_key_ascii() {
    ascii_pair_at(0);
}

/// one printed key text with every hex digit in both cases reads back to its exact value
#[kani::proof]
#[kani::unwind(66)]
fn lemma_parse_known_text() {
    let s = "00112233445566778899aabbccddeeff0123456789abcdef0123456789ABCDEF";
    let want: [u8; 32] = [
        0x00, 0x11, 0x22, 0x33, 0x44, 0x55, 0x66, 0x77, 0x88, 0x99, 0xaa, 0xbb, 0xcc, 0xdd, 0xee, 0xff,
        0x01, 0x23, 0x45, 0x67, 0x89, 0xab, 0xcd, 0xef, 0x01, 0x23, 0x45, 0x67, 0x89, 0xab, 0xcd, 0xef,
    ];
    assert!(parse_hex_key(s) == Ok(want));
}

/// "parsing any text never panics" on 64-byte texts containing one multi-byte character, the
/// rest hex digits (the slice indices 2i..2i+2 may fall inside the character).  Concrete
/// texts: symbolic characters / offsets did not terminate (see unit.json "measured").
fn text_no_panic(s: &str) {
    assert!(s.len() == 64);
    // reaching the line after the call is the obligation
    let r = parse_hex_key(s);
    assert!(r.is_err()); // and a non-hex character never yields a key
    std::mem::forget(r);
}

/// a 2-byte character at an even byte offset fills one digit pair exactly
#[kani::proof]
#[kani::unwind(66)]
fn contract_parse_hex_key_multibyte_even_offset_no_panic() {
    text_no_panic("00000000000000000000000000000000000000000000000000000000000000\u{e9}");
}

/// a 2-byte character at an odd byte offset straddles two digit pairs
#[kani::proof]
#[kani::unwind(66)]
fn contract_parse_hex_key_multibyte_odd_offset_no_panic() {
    text_no_panic("0000000000000000000000000000000000000000000000000000000000000\u{e9}0");
}

/// a 3-byte character
#[kani::proof]
#[kani::unwind(66)]
fn contract_parse_hex_key_multibyte_wide_no_panic() {
    text_no_panic("0000000000000000000000000000000000000000000000000000000000000\u{20ac}");
}

/// strings of any other length are refused (never indexed)
#[kani::proof]
#[kani::unwind(10)]
fn contract_parse_hex_key_wrong_length() {
    let raw: [u8; 6] = kani::any();
    let mut i = 0;
    while i < 6 {
        kani::assume(raw[i] < 0x80);
        i += 1;
    }
    let n: usize = kani::any();
    kani::assume(n <= 6);
    let s = unsafe { std::str::from_utf8_unchecked(&raw[..n]) };
    assert!(parse_hex_key(s) == Err(KeyParseError::InvalidKeyLength));
}

/// to_hex prints each byte as its two lower-case hex digits (bounded: 2 bytes; the loop body
/// does not depend on the position), so `parse_hex_key(to_hex(k))` sees an all-hex text.
#[kani::proof]
#[kani::unwind(6)]
fn contract_to_hex_two_bytes() {
    let k: [u8; 2] = kani::any();
    let h = to_hex(&k);
    let b = h.as_bytes();
    assert!(b.len() == 4);
    let digit = |v: u8| if v < 10 { b'0' + v } else { b'a' + (v - 10) };
    assert!(b[0] == digit(k[0] >> 4) && b[1] == digit(k[0] & 15));
    assert!(b[2] == digit(k[1] >> 4) && b[3] == digit(k[1] & 15));
    std::mem::forget(h);
}

/// Vacuity canary: must FAIL.
#[kani::proof]
#[kani::unwind(66)]
fn canary_parse_never_ok() {
    let s = "00112233445566778899aabbccddeeff00112233445566778899AABBCCDDEEFF";
    assert!(parse_hex_key(s).is_err());
}
