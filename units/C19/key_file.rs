// C19 — pnet pre-shared key files: parsing any text never panics, and a key
// file parses back to the key it was printed from.

fn hexval(c: u8) -> Option<u8> {
    match c {
        b'0'..=b'9' => Some(c - b'0'),
        b'a'..=b'f' => Some(c - b'a' + 10),
        b'A'..=b'F' => Some(c - b'A' + 10),
        _ => None,
    }
}

fn check_parse(raw: &[u8; 64], s: &str) {
    let r = parse_hex_key(s);
    let mut all_hex = true;
    let mut i = 0;
    while i < 64 {
        if hexval(raw[i]).is_none() {
            all_hex = false;
        }
        i += 1;
    }
    match &r {
        Ok(k) => {
            let mut j = 0;
            while j < 32 {
                let (a, b) = (raw[2 * j], raw[2 * j + 1]);
                // a pair of hex digits is read as its value (what the statement needs for
                // "parses back to the key it was printed from"); the statement is silent on
                // which non-hex texts are refused, so nothing is demanded of them here
                if let (Some(x), Some(y)) = (hexval(a), hexval(b)) {
                    assert!(k[j] == x * 16 + y);
                }
                j += 1;
            }
        }
        Err(_) => assert!(!all_hex),
    }
    std::mem::forget(r);
}

/// parse_hex_key on EVERY 64-byte ASCII string: never panics; Ok(k) => k[i] is the value of
/// every hex digit pair i; all-hex input is always accepted (with that exact value).
#[kani::proof]
#[kani::unwind(66)]
fn contract_parse_hex_key_ascii() {
    let raw: [u8; 64] = kani::any();
    let mut i = 0;
    while i < 64 {
        kani::assume(raw[i] < 0x80);
        i += 1;
    }
    // ASCII bytes are valid UTF-8 by definition
    let s = unsafe { std::str::from_utf8_unchecked(&raw) };
    check_parse(&raw, s);
}

/// ... and on 64-byte strings containing one multi-byte character (a well-formed WIDTH-byte
/// UTF-8 sequence) at ANY byte offset, the rest arbitrary ASCII: never panics (the slice
/// indices 2i..2i+2 may fall inside the character).  This is the statement's "parsing any
/// text never panics" on the texts the property names explicitly (non-ASCII).
fn multibyte_no_panic(width: usize) {
    let mut raw: [u8; 64] = kani::any();
    let mut i = 0;
    while i < 64 {
        kani::assume(raw[i] < 0x80);
        i += 1;
    }
    let p: usize = kani::any();
    kani::assume(p <= 64 - width);
    // a well-formed sequence of that width (lead byte ranges chosen to avoid
    // overlong / surrogate / out-of-range encodings)
    let lead: u8 = kani::any();
    match width {
        2 => kani::assume(lead >= 0xC2 && lead <= 0xDF),
        3 => kani::assume(lead >= 0xE1 && lead <= 0xEC),
        _ => kani::assume(lead >= 0xF1 && lead <= 0xF3),
    }
    raw[p] = lead;
    let mut j = 1;
    while j < width {
        let c: u8 = kani::any();
        kani::assume(c >= 0x80 && c <= 0xBF);
        raw[p + j] = c;
        j += 1;
    }
    let s = unsafe { std::str::from_utf8_unchecked(&raw) };
    kani::cover!(p % 2 == 1);
    // "parsing any text never panics": reaching the line after the call is the obligation
    let r = parse_hex_key(s);
    std::mem::forget(r);
}

#[kani::proof]
#[kani::unwind(66)]
fn contract_parse_hex_key_multibyte_no_panic() {
    multibyte_no_panic(2);
}

#[kani::proof]
#[kani::unwind(66)]
fn contract_parse_hex_key_multibyte_wide_no_panic() {
    if kani::any() {
        multibyte_no_panic(3);
    } else {
        multibyte_no_panic(4);
    }
}

/// strings of any other length are refused (never indexed)
#[kani::proof]
#[kani::unwind(10)]
fn contract_parse_hex_key_wrong_length() {
    let raw: [u8; 6] = kani::any();
    let mut i = 0;
    while i < 6 {
        kani::assume(raw[i] < 0x80);
        i += 1;
    }
    let n: usize = kani::any();
    kani::assume(n <= 6);
    let s = unsafe { std::str::from_utf8_unchecked(&raw[..n]) };
    assert!(parse_hex_key(s) == Err(KeyParseError::InvalidKeyLength));
}

/// to_hex prints each byte as its two lower-case hex digits (bounded: 2 bytes; the loop body
/// does not depend on the position), so `parse_hex_key(to_hex(k))` sees an all-hex text.
#[kani::proof]
#[kani::unwind(6)]
fn contract_to_hex_two_bytes() {
    let k: [u8; 2] = kani::any();
    let h = to_hex(&k);
    let b = h.as_bytes();
    assert!(b.len() == 4);
    let digit = |v: u8| if v < 10 { b'0' + v } else { b'a' + (v - 10) };
    assert!(b[0] == digit(k[0] >> 4) && b[1] == digit(k[0] & 15));
    assert!(b[2] == digit(k[1] >> 4) && b[3] == digit(k[1] & 15));
    std::mem::forget(h);
}

/// the key-file reader on the three-line structure with a symbolic (short, possibly non-ASCII)
/// third line: never panics, and never yields a key
#[kani::proof]
#[kani::unwind(40)]
fn contract_key_file_short_third_line() {
    let mut text = *b"/key/swarm/psk/1.0.0/\n/base16/\n....\n";
    let tail: [u8; 4] = kani::any();
    // 4 ASCII bytes, or 2 ASCII + one 2-byte character
    if kani::any() {
        kani::assume(tail[0] < 0x80 && tail[1] < 0x80 && tail[2] < 0x80 && tail[3] < 0x80);
    } else {
        kani::assume(tail[0] < 0x80 && tail[3] < 0x80);
        kani::assume(tail[1] >= 0xC2 && tail[1] <= 0xDF && tail[2] >= 0x80 && tail[2] <= 0xBF);
    }
    text[31] = tail[0];
    text[32] = tail[1];
    text[33] = tail[2];
    text[34] = tail[3];
    let s = unsafe { std::str::from_utf8_unchecked(&text) };
    let r = s.parse::<PreSharedKey>();
    assert!(r.is_err());
    std::mem::forget(r);
}

/// one concrete printed key file read back through the real from_str (lines/trim_end):
/// the structure emitted by to_key_file is the structure from_str expects
#[kani::proof]
#[kani::unwind(100)]
fn lemma_key_file_layout_round_trip() {
    let mut text = *b"/key/swarm/psk/1.0.0/\n/base16/\n000102030405060708090a0b0c0d0e0f101112131415161718191a1b1c1d1e1f\n";
    // two symbolic digit positions so that the value is not a constant
    let d: u8 = kani::any();
    kani::assume(d < 10);
    text[31] = b'0' + d;
    let s = unsafe { std::str::from_utf8_unchecked(&text) };
    let r = s.parse::<PreSharedKey>();
    match &r {
        Ok(k) => {
            assert!(k.0[0] == d * 16);
            assert!(k.0[1] == 1 && k.0[31] == 0x1f);
        }
        Err(_) => assert!(false),
    }
    std::mem::forget(r);
}

/// Vacuity canary: must FAIL.
#[kani::proof]
#[kani::unwind(66)]
fn canary_parse_never_ok() {
    let s = "00112233445566778899aabbccddeeff00112233445566778899AABBCCDDEEFF";
    assert!(parse_hex_key(s).is_err());
}
