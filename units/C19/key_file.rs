// C19 — pnet pre-shared key files: parsing any text never panics, and a key
// file parses back to the key it was printed from.

fn hexval(c: u8) -> Option<u8> {
    match c {
        b'0'..=b'9' => Some(c - b'0'),
        b'a'..=b'f' => Some(c - b'a' + 10),
        b'A'..=b'F' => Some(c - b'A' + 10),
        _ => None,
    }
}

fn check_parse(raw: &[u8; 64], s: &str) {
    let r = parse_hex_key(s);
    let mut all_hex = true;
    let mut i = 0;
    while i < 64 {
        if hexval(raw[i]).is_none() {
            all_hex = false;
        }
        i += 1;
    }
    match &r {
        Ok(k) => {
            let mut j = 0;
            while j < 32 {
                let (a, b) = (raw[2 * j], raw[2 * j + 1]);
                match (hexval(a), hexval(b)) {
                    (Some(x), Some(y)) => assert!(k[j] == x * 16 + y),
                    (None, Some(y)) => assert!(a == b'+' && k[j] == y),
                    _ => assert!(false),
                }
                j += 1;
            }
        }
        Err(_) => assert!(!all_hex),
    }
    std::mem::forget(r);
}

/// parse_hex_key on EVERY 64-byte ASCII string: never panics; Ok(k) only if
/// every byte pair is (an optional '+' and) hex digits with k[i] their value;
/// all-hex input is always accepted with the exact value.
#[kani::proof]
#[kani::unwind(66)]
fn contract_parse_hex_key_ascii() {
    let raw: [u8; 64] = kani::any();
    let mut i = 0;
    while i < 64 {
        kani::assume(raw[i] < 0x80);
        i += 1;
    }
    // ASCII bytes are valid UTF-8 by definition
    let s = unsafe { std::str::from_utf8_unchecked(&raw) };
    check_parse(&raw, s);
}

/// ... and on 64-byte strings containing a multi-byte character (2-, 3- or
/// 4-byte UTF-8 sequence) at ANY byte offset, the rest arbitrary ASCII: never
/// panics (the slice indices 2i..2i+2 may fall inside the character).
#[kani::proof]
#[kani::unwind(66)]
fn contract_parse_hex_key_multibyte_no_panic() {
    let mut raw: [u8; 64] = kani::any();
    let mut i = 0;
    while i < 64 {
        kani::assume(raw[i] < 0x80);
        i += 1;
    }
    let p: usize = kani::any();
    let width: usize = kani::any();
    kani::assume(width >= 2 && width <= 4 && p <= 64 - width);
    // a well-formed sequence of that width (lead byte ranges chosen to avoid
    // overlong / surrogate / out-of-range encodings)
    let lead: u8 = kani::any();
    match width {
        2 => kani::assume(lead >= 0xC2 && lead <= 0xDF),
        3 => kani::assume(lead >= 0xE1 && lead <= 0xEC),
        _ => kani::assume(lead >= 0xF1 && lead <= 0xF3),
    }
    raw[p] = lead;
    let mut j = 1;
    while j < width {
        let c: u8 = kani::any();
        kani::assume(c >= 0x80 && c <= 0xBF);
        raw[p + j] = c;
        j += 1;
    }
    let s = unsafe { std::str::from_utf8_unchecked(&raw) };
    kani::cover!(p % 2 == 1);
    let r = parse_hex_key(s);
    // a non-hex character can never yield a key
    assert!(r.is_err());
    std::mem::forget(r);
}

/// strings of any other length are refused (never indexed)
#[kani::proof]
#[kani::unwind(10)]
fn contract_parse_hex_key_wrong_length() {
    let raw: [u8; 6] = kani::any();
    let n: usize = kani::any();
    kani::assume(n <= 6);
    if let Ok(s) = std::str::from_utf8(&raw[..n]) {
        assert!(parse_hex_key(s) == Err(KeyParseError::InvalidKeyLength));
    }
}

/// Vacuity canary: must FAIL.
#[kani::proof]
#[kani::unwind(66)]
fn canary_parse_never_ok() {
    let s = "00112233445566778899aabbccddeeff00112233445566778899AABBCCDDEEFF";
    assert!(parse_hex_key(s).is_err());
}
