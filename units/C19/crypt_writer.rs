// C19 (part 2) — the write path of a pnet connection: the bodies of
// <CryptWriter<W> as AsyncWrite>::{poll_write, poll_flush, poll_close}, extracted verbatim
// on every run (tracing macros dropped) into methods of `CwEnv`, which has the three
// fields of `CryptWriter` under the same names: `inner` (pinned; here a recording
// AsyncWrite that, per call, returns Pending or accepts an arbitrary non-empty prefix),
// `buf: Vec<u8>` and `cipher` (here a MOCK stream cipher: XSalsa20 itself is cryptography
// and out of reach; what the clause is about is the buffering around it).  The helper
// `poll_flush_buf` is NOT extracted: the extracted bodies call the REAL generic function of
// crypt_writer.rs, instantiated with the recording writer.
//
// From the statement ("two pnet endpoints with the same pre-shared key exchange bytes
// transparently for any write/read chunking and partial-write behaviour"): a stream cipher
// is transparent iff byte k of the accepted plaintext stream reaches the wire exactly once,
// at wire position k, combined with keystream position k.  With
//     enc(k, x)   = x ^ ks(k)                       (mock keystream, ks(k) != 0, injective here)
//     wire        = bytes handed to the inner writer, in order
//     pending(s)  = s.buf                           (already encrypted, not yet on the wire)
// every call must keep
//     wire' ++ pending'  ==  wire ++ pending ++ [enc(pos + i, buf[i]) | i < n]
//     cipher.pos'        ==  cipher.pos + n
// where n = the accepted count for poll_write -> Ready(Ok(n)) and 0 otherwise (Pending loses
// nothing, accepts nothing).  Invariant: cipher.pos == |wire| + |pending|.  One step from ANY
// such state (base position symbolic, pending bytes symbolic) => by induction over any
// sequence of writes / flushes and any partial-write behaviour of the inner writer, the wire
// carries exactly enc(k, plaintext[k]) at position k: every accepted byte once, in order,
// encrypted once with its own keystream position; nothing encrypted twice (x ^ ks ^ ks' would
// differ), nothing in plaintext (ks(k) != 0).
use std::task::{RawWaker, RawWakerVTable, Waker};

const OUT: usize = 8;

/// mock keystream: odd (so never 0: ciphertext != plaintext) and injective for k < 128
fn ks(k: usize) -> u8 {
    (((k & 0x7f) as u8) << 1) | 1
}

/// MOCK for `salsa20::XSalsa20`: the one method the text calls.  XORs byte i of `data` with
/// the keystream byte of the running stream position and advances the position.
pub(crate) struct MockCipher {
    pub(crate) pos: usize,
    pub(crate) calls: usize,
}
impl MockCipher {
    pub(crate) fn apply_keystream(&mut self, data: &mut [u8]) {
        let mut i = 0;
        while i < data.len() {
            data[i] ^= ks(self.pos);
            self.pos += 1;
            i += 1;
        }
        self.calls += 1;
    }
}

/// Recording inner writer.  Call number c answers by `script[c]`: 0 = Pending, k > 0 = accept
/// the first min(k, len) bytes (a partial write unless k >= len).  The harnesses leave the
/// script symbolic, i.e. every call independently chooses Pending / any non-empty prefix.
pub(crate) struct RecWriter {
    out: [u8; OUT],
    n: usize,
    calls: usize,
    pendings: usize,
    script: [u8; OUT],
    flushed: bool,
    closed: bool,
}
impl RecWriter {
    fn new(script: [u8; OUT]) -> Self {
        RecWriter { out: [0; OUT], n: 0, calls: 0, pendings: 0, script, flushed: false, closed: false }
    }
}
impl AsyncWrite for RecWriter {
    fn poll_write(mut self: Pin<&mut Self>, _cx: &mut Context<'_>, buf: &[u8]) -> Poll<io::Result<usize>> {
        let c = self.calls;
        self.calls = c + 1;
        let k = if c < OUT { self.script[c] as usize } else { 0 };
        if k == 0 {
            self.pendings += 1;
            return Poll::Pending;
        }
        let take = if k < buf.len() { k } else { buf.len() };
        let mut i = 0;
        while i < take {
            let at = self.n;
            if at < OUT {
                self.out[at] = buf[i];
            }
            self.n = at + 1;
            i += 1;
        }
        Poll::Ready(Ok(take))
    }
    fn poll_flush(mut self: Pin<&mut Self>, _cx: &mut Context<'_>) -> Poll<io::Result<()>> {
        self.flushed = true;
        Poll::Ready(Ok(()))
    }
    fn poll_close(mut self: Pin<&mut Self>, _cx: &mut Context<'_>) -> Poll<io::Result<()>> {
        self.closed = true;
        Poll::Ready(Ok(()))
    }
}

/// the three fields of `CryptWriter<W>`, same names, same pinning
#[pin_project]
pub(crate) struct CwEnv {
    #[pin]
    pub(crate) inner: RecWriter,
    pub(crate) buf: Vec<u8>,
    pub(crate) cipher: MockCipher,
}

// impl CwEnv { fn poll_write(self: Pin<&mut Self>, cx, buf) -> Poll<io::Result<usize>>;
//              fn poll_flush / poll_close(self: Pin<&mut Self>, cx) -> Poll<io::Result<()>> }
include!(concat!(env!("LIBP2P_VERIF_GEN"), "/C19/crypt_writer_write_path.rs"));

fn noop_waker() -> Waker {
    fn clone(_: *const ()) -> RawWaker { RawWaker::new(std::ptr::null(), &VT) }
    fn noop(_: *const ()) {}
    static VT: RawWakerVTable = RawWakerVTable::new(clone, noop, noop, noop);
    unsafe { Waker::from_raw(RawWaker::new(std::ptr::null(), &VT)) }
}

/// `len` symbolic bytes in a Vec of fixed capacity 8 (CryptWriter::with_capacity allocates the
/// buffer once; `len` is concrete at every call site: no Vec of symbolic length is ever built)
fn vec_of(len: usize) -> Vec<u8> {
    let mut v = Vec::with_capacity(OUT);
    let mut i = 0;
    while i < len {
        v.push(kani::any());
        i += 1;
    }
    v
}

/// ANY state of the invariant with `len` pending bytes: `base` bytes are already on the wire
/// (base symbolic), the `len` pending bytes (symbolic) are the ciphertext of stream positions
/// base..base+len, the cipher stands at base+len.  The recorder starts empty and records
/// only what this step puts on the wire.
fn state_of(len: usize) -> (CwEnv, usize) {
    let base: usize = kani::any();
    kani::assume(base <= 100);
    let s = CwEnv {
        inner: RecWriter::new(kani::any()),
        buf: vec_of(len),
        cipher: MockCipher { pos: base + len, calls: 0 },
    };
    (s, base + len)
}

fn snapshot(s: &CwEnv) -> ([u8; 4], usize) {
    let mut b = [0u8; 4];
    let mut i = 0;
    while i < s.buf.len() && i < 4 {
        b[i] = s.buf[i];
        i += 1;
    }
    (b, s.buf.len())
}

/// wire' ++ pending' == pending_before ++ enc(accepted), cipher advanced by exactly |accepted|
fn check_stream(s: &CwEnv, before: &[u8; 4], nb: usize, pos0: usize, accepted: &[u8], na: usize) {
    let total = nb + na;
    assert!(s.inner.n + s.buf.len() == total, "pnet writer: bytes lost or duplicated between poll_write and the inner writer");
    assert!(s.cipher.pos == pos0 + na, "pnet writer: keystream position out of step with the accepted byte count");
    let mut i = 0;
    while i < total && i < OUT {
        let want = if i < nb { before[i] } else { accepted[i - nb] ^ ks(pos0 + (i - nb)) };
        let got = if i < s.inner.n { s.inner.out[i] } else { s.buf[i - s.inner.n] };
        assert!(want == got, "pnet writer: wire plus pending buffer is not the accepted stream encrypted once, in order");
        i += 1;
    }
}

fn write_case(len: usize, blen: usize) {
    let (mut s, pos0) = state_of(len);
    let (before, nb) = snapshot(&s);
    let data = vec_of(blen);
    let w = noop_waker();
    let mut cx = Context::from_waker(&w);
    let r = Pin::new(&mut s).poll_write(&mut cx, &data);
    match r {
        Poll::Ready(Ok(n)) => {
            assert!(n <= blen, "pnet writer: accepted more bytes than offered");
            // progress: Ok(0) for a non-empty write means "closed" to write_all
            assert!(n > 0 || blen == 0, "pnet writer: non-empty write answered with Ok(0)");
            check_stream(&s, &before, nb, pos0, &data, n);
        }
        Poll::Pending => {
            // nothing accepted, nothing lost, nothing encrypted; and somebody will wake us
            assert!(s.inner.pendings > 0, "pnet writer: Pending although the inner writer never was");
            assert!(s.cipher.calls == 0, "pnet writer: bytes encrypted by a write that accepted nothing");
            check_stream(&s, &before, nb, pos0, &data, 0);
        }
        // the recording writer never fails and never returns Ok(0)
        Poll::Ready(Err(_)) => assert!(false, "pnet writer: error although the inner writer made progress"),
    }
    std::mem::forget((s, data));
}

/// poll_write from ANY state with 0 or 1 pending bytes x write lengths 0..=3
#[kani::proof]
#[kani::unwind(10)]
fn crypt_writer_poll_write_short_backlog() {
    let mut len = 0;
    while len <= 1 {
        let mut blen = 0;
        while blen <= 3 {
            write_case(len, blen);
            blen += 1;
        }
        len += 1;
    }
}

/// poll_write from ANY state with 2 or 3 pending bytes x write lengths 0..=3
#[kani::proof]
#[kani::unwind(10)]
fn crypt_writer_poll_write_long_backlog() {
    let mut len = 2;
    while len <= 3 {
        let mut blen = 0;
        while blen <= 3 {
            write_case(len, blen);
            blen += 1;
        }
        len += 1;
    }
}

fn flush_case(len: usize, close: bool) {
    let (mut s, pos0) = state_of(len);
    let (before, nb) = snapshot(&s);
    let w = noop_waker();
    let mut cx = Context::from_waker(&w);
    let r = if close { Pin::new(&mut s).poll_close(&mut cx) } else { Pin::new(&mut s).poll_flush(&mut cx) };
    match r {
        Poll::Ready(Ok(())) => {
            assert!(s.buf.is_empty() && s.inner.n == nb, "pnet writer: a completed flush/close left bytes pending");
            assert!(if close { s.inner.closed } else { s.inner.flushed }, "pnet writer: inner writer not flushed/closed");
        }
        Poll::Pending => {
            assert!(s.inner.pendings > 0);
            assert!(!s.inner.flushed && !s.inner.closed, "pnet writer: inner writer flushed/closed before the backlog went out");
        }
        Poll::Ready(Err(_)) => assert!(false, "pnet writer: error although the inner writer made progress"),
    }
    assert!(s.cipher.calls == 0, "pnet writer: flush/close encrypted something");
    check_stream(&s, &before, nb, pos0, &[], 0);
    std::mem::forget(s);
}

/// poll_flush / poll_close from ANY state with 0..=3 pending bytes
#[kani::proof]
#[kani::unwind(10)]
fn crypt_writer_poll_flush_and_close_drain_the_backlog() {
    let mut len = 0;
    while len <= 3 {
        flush_case(len, false);
        flush_case(len, true);
        len += 1;
    }
}

/// write 2, write 2, flush x3 on a fresh writer, every inner call Pending / partial at will:
/// whatever was accepted is on the wire or pending, encrypted with positions 0, 1, 2, ...
#[kani::proof]
#[kani::unwind(10)]
fn crypt_writer_write_write_flush_sequence() {
    let mut s = CwEnv { inner: RecWriter::new(kani::any()), buf: Vec::with_capacity(OUT), cipher: MockCipher { pos: 0, calls: 0 } };
    let a = vec_of(2);
    let b = vec_of(2);
    let w = noop_waker();
    let mut cx = Context::from_waker(&w);
    // a fresh writer has no backlog: the first write is accepted whole whatever the inner writer does
    assert!(matches!(Pin::new(&mut s).poll_write(&mut cx, &a), Poll::Ready(Ok(2))));
    let m = match Pin::new(&mut s).poll_write(&mut cx, &b) {
        Poll::Ready(Ok(m)) => m,
        Poll::Pending => 0,
        Poll::Ready(Err(_)) => {
            assert!(false);
            0
        }
    };
    assert!(m <= 2);
    let mut done = false;
    let mut k = 0;
    while k < 3 && !done {
        done = matches!(Pin::new(&mut s).poll_flush(&mut cx), Poll::Ready(Ok(())));
        k += 1;
    }
    kani::cover!(done && m == 2);
    kani::cover!(!done);
    let plain = [a[0], a[1], b[0], b[1]];
    check_stream(&s, &[0; 4], 0, 0, &plain, 2 + m);
    if done {
        assert!(s.buf.is_empty() && s.inner.n == 2 + m);
        // in particular nothing went out in plaintext
        assert!(s.inner.out[0] != a[0] && s.inner.out[1] != a[1]);
    }
    std::mem::forget((s, a, b));
}

/// Vacuity canary: must FAIL (the backlog would never reach the inner writer).
#[kani::proof]
#[kani::unwind(10)]
fn canary_crypt_writer_never_writes() {
    let (mut s, _) = state_of(2);
    let w = noop_waker();
    let mut cx = Context::from_waker(&w);
    let _ = Pin::new(&mut s).poll_flush(&mut cx);
    assert!(s.inner.n == 0);
    std::mem::forget(s);
}
