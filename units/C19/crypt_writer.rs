// C19 (part 2) — the write path of a pnet connection: the bodies of
// <CryptWriter<W> as AsyncWrite>::{poll_write, poll_flush, poll_close}, extracted verbatim
// on every run (tracing macros dropped) into methods of `CwEnv`, which has the three
// fields of `CryptWriter` under the same names: `inner` (pinned; here a recording
// AsyncWrite that, per call, returns Pending or accepts a non-empty prefix; the harnesses
// enumerate EVERY such behaviour for the sizes in the bound),
// `buf: Vec<u8>` and `cipher` (here a MOCK stream cipher: XSalsa20 itself is cryptography
// and out of reach; what the clause is about is the buffering around it).  The helper
// `poll_flush_buf` is NOT extracted: the extracted bodies call the REAL generic function of
// crypt_writer.rs, instantiated with the recording writer.
//
// From the statement ("two pnet endpoints with the same pre-shared key exchange bytes
// transparently for any write/read chunking and partial-write behaviour"): a stream cipher
// is transparent iff byte k of the accepted plaintext stream reaches the wire exactly once,
// at wire position k, combined with keystream position k.  With
//     enc(k, x)   = x ^ ks(k)                       (mock keystream, ks(k) != 0, injective here)
//     wire        = bytes handed to the inner writer, in order
//     pending(s)  = s.buf                           (already encrypted, not yet on the wire)
// every call must keep
//     wire' ++ pending'  ==  wire ++ pending ++ [enc(pos + i, buf[i]) | i < n]
//     cipher.pos'        ==  cipher.pos + n
// where n = the accepted count for poll_write -> Ready(Ok(n)) and 0 otherwise (Pending loses
// nothing, accepts nothing).  Invariant: cipher.pos == |wire| + |pending|.  One step from ANY
// such state (base position symbolic, pending bytes symbolic, backlog length enumerated up to
// 3) => by induction over any
// sequence of writes / flushes and any partial-write behaviour of the inner writer, the wire
// carries exactly enc(k, plaintext[k]) at position k: every accepted byte once, in order,
// encrypted once with its own keystream position; nothing encrypted twice (x ^ ks ^ ks' would
// differ), nothing in plaintext (ks(k) != 0).
use std::task::{RawWaker, RawWakerVTable, Waker};

const OUT: usize = 8;

/// mock keystream: odd (so never 0: ciphertext != plaintext) and injective for k < 128
fn ks(k: usize) -> u8 {
    (((k & 0x7f) as u8) << 1) | 1
}

/// MOCK for `salsa20::XSalsa20`: the one method the text calls.  XORs byte i of `data` with
/// the keystream byte of the running stream position and advances the position.
pub(crate) struct MockCipher {
    pub(crate) pos: usize,
    pub(crate) calls: usize,
}
impl MockCipher {
    pub(crate) fn apply_keystream(&mut self, data: &mut [u8]) {
        let mut i = 0;
        while i < data.len() {
            data[i] ^= ks(self.pos);
            self.pos += 1;
            i += 1;
        }
        self.calls += 1;
    }
}

/// Recording inner writer.  Its behaviour is a pair (cuts, pending_at): with n = number of
/// bytes accepted so far, a call is answered Pending (once) when n == pending_at, otherwise it
/// accepts bytes up to the next position p with bit p of `cuts` set (a PARTIAL write), the
/// position pending_at, or the end of the offered slice, whichever comes first.  Every
/// sequence of "Pending / accept a non-empty prefix" answers that one call of the functions
/// under contract can observe for a given amount of data is produced by exactly one canonical
/// (cuts, pending_at): the harnesses enumerate them all (measured: leaving the behaviour
/// symbolic costs 45 s for one poll_flush_buf of 2 bytes and > 600 s per harness, because
/// `written` then is a symbolic offset into the Vec for slicing and `drain`).
pub(crate) struct RecWriter {
    out: [u8; OUT],
    n: usize,
    calls: usize,
    pendings: usize,
    cuts: u8,
    pending_at: usize,
    flushed: bool,
    closed: bool,
}
/// "never Pending"
const NEVER: usize = 99;
impl RecWriter {
    fn new(cuts: u8, pending_at: usize) -> Self {
        RecWriter { out: [0; OUT], n: 0, calls: 0, pendings: 0, cuts, pending_at, flushed: false, closed: false }
    }
}
impl AsyncWrite for RecWriter {
    fn poll_write(mut self: Pin<&mut Self>, _cx: &mut Context<'_>, buf: &[u8]) -> Poll<io::Result<usize>> {
        self.calls += 1;
        if self.n == self.pending_at && self.pendings == 0 {
            self.pendings = 1;
            return Poll::Pending;
        }
        let mut take = 0;
        while take < buf.len() {
            let at = self.n;
            if at < OUT {
                self.out[at] = buf[take];
            }
            self.n = at + 1;
            take += 1;
            let p = self.n;
            if (p < 8 && (self.cuts >> p) & 1 == 1) || (p == self.pending_at && self.pendings == 0) {
                break;
            }
        }
        Poll::Ready(Ok(take))
    }
    fn poll_flush(mut self: Pin<&mut Self>, _cx: &mut Context<'_>) -> Poll<io::Result<()>> {
        self.flushed = true;
        Poll::Ready(Ok(()))
    }
    fn poll_close(mut self: Pin<&mut Self>, _cx: &mut Context<'_>) -> Poll<io::Result<()>> {
        self.closed = true;
        Poll::Ready(Ok(()))
    }
}

/// Is (cuts, pending_at) the canonical description of a behaviour for a backlog of `len` bytes
/// followed by `blen` freshly written bytes?  cuts only strictly inside (0, len) or
/// (len, len+blen) (the end of an offered slice ends a call anyway) and only before the
/// Pending (what the writer would do after the call under contract returned is unobservable).
fn canonical(cuts: u8, pending_at: usize, len: usize, blen: usize) -> bool {
    let total = len + blen;
    let mut p = 0;
    let mut ok = cuts & 1 == 0;
    while p < 8 {
        if (cuts >> p) & 1 == 1 {
            if p >= total || p == len || (pending_at != NEVER && p >= pending_at) {
                ok = false;
            }
        }
        p += 1;
    }
    ok
}

/// the three fields of `CryptWriter<W>`, same names, same pinning
#[pin_project]
pub(crate) struct CwEnv {
    #[pin]
    pub(crate) inner: RecWriter,
    pub(crate) buf: Vec<u8>,
    pub(crate) cipher: MockCipher,
}

// impl CwEnv { fn poll_write(self: Pin<&mut Self>, cx, buf) -> Poll<io::Result<usize>>;
//              fn poll_flush / poll_close(self: Pin<&mut Self>, cx) -> Poll<io::Result<()>> }
include!(concat!(env!("LIBP2P_VERIF_GEN"), "/C19/crypt_writer_write_path.rs"));

fn noop_waker() -> Waker {
    fn clone(_: *const ()) -> RawWaker { RawWaker::new(std::ptr::null(), &VT) }
    fn noop(_: *const ()) {}
    static VT: RawWakerVTable = RawWakerVTable::new(clone, noop, noop, noop);
    unsafe { Waker::from_raw(RawWaker::new(std::ptr::null(), &VT)) }
}

/// `len` symbolic bytes in a Vec of fixed capacity 8 (CryptWriter::with_capacity allocates the
/// buffer once; `len` is concrete at every call site: no Vec of symbolic length is ever built)
fn vec_of(len: usize) -> Vec<u8> {
    let mut v = Vec::with_capacity(OUT);
    let mut i = 0;
    while i < len {
        v.push(kani::any());
        i += 1;
    }
    v
}

/// ANY state of the invariant with `len` pending bytes: `base` bytes are already on the wire
/// (base symbolic), the `len` pending bytes (symbolic) are the ciphertext of stream positions
/// base..base+len, the cipher stands at base+len.  The recorder starts empty and records
/// only what this step puts on the wire.
fn state_of(len: usize, cuts: u8, pending_at: usize) -> (CwEnv, usize) {
    let base: usize = kani::any();
    kani::assume(base <= 100);
    let s = CwEnv {
        inner: RecWriter::new(cuts, pending_at),
        buf: vec_of(len),
        cipher: MockCipher { pos: base + len, calls: 0 },
    };
    (s, base + len)
}

fn snapshot(s: &CwEnv) -> ([u8; 4], usize) {
    let mut b = [0u8; 4];
    let mut i = 0;
    while i < s.buf.len() && i < 4 {
        b[i] = s.buf[i];
        i += 1;
    }
    (b, s.buf.len())
}

/// wire' ++ pending' == pending_before ++ enc(accepted), cipher advanced by exactly |accepted|
fn check_stream(s: &CwEnv, before: &[u8; 4], nb: usize, pos0: usize, accepted: &[u8], na: usize) {
    let total = nb + na;
    assert!(s.inner.n + s.buf.len() == total, "pnet writer: bytes lost or duplicated between poll_write and the inner writer");
    assert!(s.cipher.pos == pos0 + na, "pnet writer: keystream position out of step with the accepted byte count");
    let mut i = 0;
    while i < total && i < OUT {
        let want = if i < nb { before[i] } else { accepted[i - nb] ^ ks(pos0 + (i - nb)) };
        let got = if i < s.inner.n { s.inner.out[i] } else { s.buf[i - s.inner.n] };
        assert!(want == got, "pnet writer: wire plus pending buffer is not the accepted stream encrypted once, in order");
        i += 1;
    }
}

fn write_case(len: usize, blen: usize, cuts: u8, pending_at: usize) {
    let (mut s, pos0) = state_of(len, cuts, pending_at);
    let (before, nb) = snapshot(&s);
    let data = vec_of(blen);
    let w = noop_waker();
    let mut cx = Context::from_waker(&w);
    let r = Pin::new(&mut s).poll_write(&mut cx, &data);
    match r {
        Poll::Ready(Ok(n)) => {
            assert!(n <= blen, "pnet writer: accepted more bytes than offered");
            // progress: Ok(0) for a non-empty write means "closed" to write_all
            assert!(n > 0 || blen == 0, "pnet writer: non-empty write answered with Ok(0)");
            check_stream(&s, &before, nb, pos0, &data, n);
        }
        Poll::Pending => {
            // nothing accepted, nothing lost, nothing encrypted; and somebody will wake us
            assert!(s.inner.pendings > 0, "pnet writer: Pending although the inner writer never was");
            assert!(s.cipher.calls == 0, "pnet writer: bytes encrypted by a write that accepted nothing");
            check_stream(&s, &before, nb, pos0, &data, 0);
        }
        // the recording writer never fails and never returns Ok(0)
        Poll::Ready(Err(_)) => assert!(false, "pnet writer: error although the inner writer made progress"),
    }
    std::mem::forget((s, data));
}

/// every canonical inner-writer behaviour for (len, blen): Pending at 0..len+blen-1 or never
fn write_cases(len: usize, blen: usize) {
    let total = len + blen;
    let mut pa = 0;
    while pa <= total {
        let pending_at = if pa == total { NEVER } else { pa };
        let mut cuts: u8 = 0;
        while cuts < 64 {
            if canonical(cuts, pending_at, len, blen) {
                write_case(len, blen, cuts, pending_at);
            }
            cuts += 2;
        }
        pa += 1;
    }
}

/// poll_write from ANY state with 0 or 1 pending bytes x write lengths 0..=3 x every inner behaviour
#[kani::proof]
#[kani::unwind(34)]
fn crypt_writer_poll_write_backlog_0_1() {
    let mut len = 0;
    while len <= 1 {
        let mut blen = 0;
        while blen <= 3 {
            write_cases(len, blen);
            blen += 1;
        }
        len += 1;
    }
}

/// poll_write from ANY state with 2 pending bytes
#[kani::proof]
#[kani::unwind(34)]
fn crypt_writer_poll_write_backlog_2() {
    let mut blen = 0;
    while blen <= 3 {
        write_cases(2, blen);
        blen += 1;
    }
}

/// poll_write from ANY state with 3 pending bytes, write lengths 0..=2
#[kani::proof]
#[kani::unwind(34)]
fn crypt_writer_poll_write_backlog_3() {
    let mut blen = 0;
    while blen <= 2 {
        write_cases(3, blen);
        blen += 1;
    }
}

/// poll_write from ANY state with 3 pending bytes, write length 3
#[kani::proof]
#[kani::unwind(34)]
fn crypt_writer_poll_write_backlog_3_write_3() {
    write_cases(3, 3);
}

fn flush_case(len: usize, close: bool, cuts: u8, pending_at: usize) {
    let (mut s, pos0) = state_of(len, cuts, pending_at);
    let (before, nb) = snapshot(&s);
    let w = noop_waker();
    let mut cx = Context::from_waker(&w);
    let r = if close { Pin::new(&mut s).poll_close(&mut cx) } else { Pin::new(&mut s).poll_flush(&mut cx) };
    match r {
        Poll::Ready(Ok(())) => {
            assert!(s.buf.is_empty() && s.inner.n == nb, "pnet writer: a completed flush/close left bytes pending");
            assert!(if close { s.inner.closed } else { s.inner.flushed }, "pnet writer: inner writer not flushed/closed");
        }
        Poll::Pending => {
            assert!(s.inner.pendings > 0, "pnet writer: Pending although the inner writer never was");
            assert!(!s.inner.flushed && !s.inner.closed, "pnet writer: inner writer flushed/closed before the backlog went out");
        }
        Poll::Ready(Err(_)) => assert!(false, "pnet writer: error although the inner writer made progress"),
    }
    assert!(s.cipher.calls == 0, "pnet writer: flush/close encrypted something");
    check_stream(&s, &before, nb, pos0, &[], 0);
    std::mem::forget(s);
}

/// poll_flush / poll_close from ANY state with 0..=3 pending bytes x every inner behaviour
#[kani::proof]
#[kani::unwind(34)]
fn crypt_writer_poll_flush_and_close_drain_the_backlog() {
    let mut len = 0;
    while len <= 3 {
        let mut pa = 0;
        while pa <= len {
            let pending_at = if pa == len { NEVER } else { pa };
            let mut cuts: u8 = 0;
            while cuts < 8 {
                if canonical(cuts, pending_at, len, 0) {
                    flush_case(len, false, cuts, pending_at);
                    flush_case(len, true, cuts, pending_at);
                }
                cuts += 2;
            }
            pa += 1;
        }
        len += 1;
    }
}

/// write 2, write 2, flush x3 on a fresh writer; inner writer: every partial-write pattern over
/// the 4 bytes x one Pending at any position or none.  Whatever was accepted is on the wire or
/// pending, encrypted with positions 0, 1, 2, ...
fn sequence_case(cuts: u8, pending_at: usize) {
    let mut s = CwEnv { inner: RecWriter::new(cuts, pending_at), buf: Vec::with_capacity(OUT), cipher: MockCipher { pos: 0, calls: 0 } };
    let a = vec_of(2);
    let b = vec_of(2);
    let w = noop_waker();
    let mut cx = Context::from_waker(&w);
    // a fresh writer has no backlog: the first write is accepted whole whatever the inner writer does
    assert!(matches!(Pin::new(&mut s).poll_write(&mut cx, &a), Poll::Ready(Ok(2))), "pnet writer: first write on an empty writer not accepted whole");
    let m = match Pin::new(&mut s).poll_write(&mut cx, &b) {
        Poll::Ready(Ok(m)) => m,
        Poll::Pending => 0,
        Poll::Ready(Err(_)) => {
            assert!(false, "pnet writer: error although the inner writer made progress");
            0
        }
    };
    assert!(m <= 2);
    let mut done = false;
    let mut k = 0;
    while k < 3 && !done {
        done = matches!(Pin::new(&mut s).poll_flush(&mut cx), Poll::Ready(Ok(())));
        k += 1;
    }
    // the inner writer is Pending at most once: two flushes always suffice
    assert!(done, "pnet writer: flush does not complete although the inner writer accepts everything");
    let plain = [a[0], a[1], b[0], b[1]];
    check_stream(&s, &[0; 4], 0, 0, &plain, 2 + m);
    assert!(s.buf.is_empty() && s.inner.n == 2 + m);
    // in particular nothing went out in plaintext
    assert!(s.inner.out[0] != a[0] && s.inner.out[1] != a[1], "pnet writer: plaintext on the wire");
    std::mem::forget((s, a, b));
}

#[kani::proof]
#[kani::unwind(34)]
fn crypt_writer_write_write_flush_sequence() {
    let mut pa = 0;
    while pa <= 4 {
        let pending_at = if pa == 4 { NEVER } else { pa };
        // partial writes inside the first and / or the second pair of bytes (position 2 ends an
        // offered slice in every run of this sequence)
        sequence_case(0, pending_at);
        sequence_case(1 << 1, pending_at);
        sequence_case(1 << 3, pending_at);
        sequence_case((1 << 1) | (1 << 3), pending_at);
        pa += 1;
    }
}

/// Vacuity canary: must FAIL (the backlog would never reach the inner writer).
#[kani::proof]
#[kani::unwind(34)]
fn canary_crypt_writer_never_writes() {
    let (mut s, _) = state_of(2, 0, NEVER);
    let w = noop_waker();
    let mut cx = Context::from_waker(&w);
    let _ = Pin::new(&mut s).poll_flush(&mut cx);
    assert!(s.inner.n == 0);
    std::mem::forget(s);
}
