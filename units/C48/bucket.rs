// C48 — relay rate limiters are token buckets.
//
// Code under contract: the real `GenericRateLimiter::<u8>::{try_next, refill}` and
// the real `new_per_ip` closure (buckets map = dependency shim, schedule = std
// VecDeque).  The contract is the textbook token bucket, written on the abstract
// state "tokens(id)" (a missing bucket holds `limit` tokens):
//
//   refill at `now`:  a bucket whose last refill is >= interval old gains
//                     floor((now - last) / interval) tokens, capped at `limit`
//                     (its refill time becomes `now`); younger buckets are untouched;
//   try_next(id,now): accepted  <=>  tokens(id) after the refill > 0;
//                     accepted   =>  tokens(id) decreases by exactly one;
//                     every other identity keeps its (refilled) tokens.
//
// From these the statement's window bound follows by the standard token-bucket
// lemma (tokens never exceed `limit`, every acceptance costs one token, a bucket
// gains at most floor(elapsed/interval) tokens over any window because
// sum floor(d_i/I) <= floor(sum d_i / I)); that lemma is STATED, not machine-checked.
//
// "always accepts an identity that has been idle for limit*interval" is proved by
// induction with a ghost variable T = time of the identity's last request and the
// invariant  J(id,T): tokens(id) >= 1  or  last_refill(id) <= T :
//   try_next(id, T) establishes J(id, T);  try_next(other, t>=T) preserves it;
//   J(id,T) and now >= T + limit*interval  =>  try_next(id, now) accepts.
//
// Well-formed states (`wf`): every stored balance < limit; the schedule lists
// every bucket id exactly once, sorted by instant; `now` is not before any entry
// (the statement quantifies over non-decreasing timestamps).
// Bound: <= 2 buckets over 3 identities; timestamps within 2^TBITS microseconds of
// an arbitrary base; interval 1..2^IBITS microseconds; limit over all u32 >= 1.

use std::net::Ipv4Addr;

const TBITS: u32 = 12;
const IBITS: u32 = 6;

fn base() -> Instant {
    // an arbitrary origin: zero instant + up to ~136 years
    let z: Instant = unsafe { std::mem::zeroed() };
    let s: u32 = kani::any();
    z + Duration::from_secs(s as u64)
}
fn at(b: Instant, t: u32) -> Instant {
    b + Duration::from_micros(t as u64)
}
fn any_time() -> u32 {
    let t: u32 = kani::any();
    kani::assume(t < (1 << TBITS));
    t
}
fn any_id() -> u8 {
    let i: u8 = kani::any();
    kani::assume(i < 3);
    i
}

/// abstract state: up to two buckets (id, last refill time, balance)
#[derive(Clone, Copy)]
struct Spec {
    limit: u32,
    interval: u32, // microseconds
    n: usize,
    id: [u8; 2],
    t: [u32; 2],
    bal: [u32; 2],
}

fn any_spec(n: usize) -> Spec {
    let s = Spec {
        limit: kani::any(),
        interval: kani::any(),
        n,
        id: [any_id(), any_id()],
        t: [any_time(), any_time()],
        bal: [kani::any(), kani::any()],
    };
    kani::assume(s.limit >= 1);
    kani::assume(s.interval >= 1 && s.interval < (1 << IBITS));
    kani::assume(s.id[0] != s.id[1]);
    kani::assume(s.t[0] <= s.t[1]); // schedule sorted
    kani::assume(s.bal[0] < s.limit && s.bal[1] < s.limit);
    s
}

fn build(s: &Spec, b: Instant) -> GenericRateLimiter<u8> {
    let mut l = GenericRateLimiter::<u8>::new(GenericRateLimiterConfig {
        limit: NonZeroU32::new(s.limit).unwrap(),
        interval: Duration::from_micros(s.interval as u64),
    });
    let mut i = 0;
    while i < 2 {
        if i < s.n {
            l.buckets.insert(s.id[i], s.bal[i]);
            l.refill_schedule.push_back((at(b, s.t[i]), s.id[i]));
        }
        i += 1;
    }
    l
}

/// tokens of `id` in the abstract state (missing bucket = full)
fn tokens(s: &Spec, id: u8) -> u32 {
    let mut i = 0;
    while i < 2 {
        if i < s.n && s.id[i] == id {
            return s.bal[i];
        }
        i += 1;
    }
    s.limit
}
fn last_refill(s: &Spec, id: u8) -> Option<u32> {
    let mut i = 0;
    while i < 2 {
        if i < s.n && s.id[i] == id {
            return Some(s.t[i]);
        }
        i += 1;
    }
    None
}

/// floor(d / iv) without a division: the unique q with q*iv <= d < (q+1)*iv
fn floor_div(d: u32, iv: u32) -> u32 {
    let q: u32 = kani::any();
    kani::assume((q as u64) * (iv as u64) <= d as u64);
    kani::assume((d as u64) < (q as u64 + 1) * (iv as u64));
    q
}

/// the token-bucket refill of one bucket at time `now`: (tokens, last refill); tokens == limit means "full, forgotten"
fn spec_refill(limit: u32, interval: u32, bal: u32, t: u32, now: u32) -> (u32, u32) {
    let d = now - t;
    if d < interval {
        return (bal, t);
    }
    let q = floor_div(d, interval);
    let nb = (bal as u64 + q as u64).min(limit as u64) as u32;
    (nb, now)
}

/// concrete tokens / refill time of `id` in the real limiter
fn real_tokens(l: &GenericRateLimiter<u8>, id: u8) -> u32 {
    match l.buckets.get(&id) {
        Some(b) => *b,
        None => l.limit,
    }
}
fn real_last_refill(l: &GenericRateLimiter<u8>, id: u8) -> Option<Instant> {
    l.refill_schedule.iter().find(|(_, i)| *i == id).map(|(t, _)| *t)
}

fn real_wf(l: &GenericRateLimiter<u8>, now: Instant) -> bool {
    let n = l.refill_schedule.len();
    if n != l.buckets.len() || n > 3 {
        return false;
    }
    let mut ok = true;
    let mut i = 0;
    while i < 3 {
        if i < n {
            let (t, id) = l.refill_schedule[i];
            match l.buckets.get(&id) {
                Some(b) => ok &= *b < l.limit,
                None => ok = false,
            }
            ok &= t <= now;
            let mut j = 0;
            while j < i {
                let (tj, idj) = l.refill_schedule[j];
                ok &= idj != id && tj <= t;
                j += 1;
            }
        }
        i += 1;
    }
    ok
}

/// after `refill(now)` the real state of identity `id` is the token-bucket refill of its abstract state
fn check_refilled(l: &GenericRateLimiter<u8>, s: &Spec, b: Instant, id: u8, now: u32, spent: u32) {
    match last_refill(s, id) {
        None => {
            // untouched: still full (minus what this call spent)
            assert!(real_tokens(l, id) == s.limit - spent);
        }
        Some(t) => {
            let (nb, nt) = spec_refill(s.limit, s.interval, tokens(s, id), t, now);
            assert!(real_tokens(l, id) == nb - spent, "tokens after refill differ from the token-bucket amount");
            if real_tokens(l, id) < s.limit {
                assert!(real_last_refill(l, id) == Some(at(b, nt)));
            } else {
                assert!(real_last_refill(l, id).is_none());
            }
        }
    }
}

/// refill: adds floor(delta/interval) tokens to ready buckets, never above limit, leaves the others alone
fn refill_adds_floor_elapsed_over_interval_capped_at_limit(n: usize) {
    let s = any_spec(n);
    let b = base();
    let now = any_time();
    kani::assume(s.n == 0 || s.t[s.n - 1] <= now);
    let mut l = build(&s, b);
    l.refill(at(b, now));
    assert!(real_wf(&l, at(b, now)));
    check_refilled(&l, &s, b, 0, now, 0);
    check_refilled(&l, &s, b, 1, now, 0);
    check_refilled(&l, &s, b, 2, now, 0);
    kani::cover!(l.buckets.len() == 0);
    kani::cover!(s.n == 0 || (l.buckets.len() == s.n && real_tokens(&l, s.id[0]) > s.bal[0]));
}

/// try_next: accepted <=> a token is available after the refill; costs exactly one; others unaffected
fn try_next_takes_exactly_one_token_iff_available(n: usize) {
    let s = any_spec(n);
    let b = base();
    let now = any_time();
    kani::assume(s.n == 0 || s.t[s.n - 1] <= now);
    let id = any_id();
    let mut l = build(&s, b);
    let avail = match last_refill(&s, id) {
        None => s.limit,
        Some(t) => spec_refill(s.limit, s.interval, tokens(&s, id), t, now).0,
    };
    let ok = l.try_next(id, at(b, now));
    assert!(real_wf(&l, at(b, now)));
    assert!(ok == (avail > 0), "accepted although no token was available, or refused although one was");
    kani::cover!(ok);
    kani::cover!(s.n == 0 || !ok);
    let mut o = 0u8;
    while o < 3 {
        if o != id {
            check_refilled(&l, &s, b, o, now, 0);
        }
        o += 1;
    }
    if ok {
        assert!(real_tokens(&l, id) == avail - 1, "an accepted request did not cost exactly one token");
        assert!(real_tokens(&l, id) < s.limit);
    } else {
        assert!(real_tokens(&l, id) == 0);
    }
}

/// ghost invariant J(id, T): at least one token, or the bucket was last refilled no later than T
fn ghost_j(l: &GenericRateLimiter<u8>, id: u8, t_last_request: Instant) -> bool {
    real_tokens(l, id) >= 1 || real_last_refill(l, id).map_or(false, |r| r <= t_last_request)
}

/// a request by `id` at T establishes J(id, T); a later request by another identity preserves it
fn idle_invariant_established_and_preserved(n: usize) {
    let s = any_spec(n);
    let b = base();
    let id = any_id();
    let mut l = build(&s, b);
    if kani::any() {
        let t = any_time();
        kani::assume(s.n == 0 || s.t[s.n - 1] <= t);
        let _ = l.try_next(id, at(b, t));
        assert!(ghost_j(&l, id, at(b, t)));
    } else {
        let t = any_time(); // the identity's last request
        let now = any_time();
        kani::assume(t <= now);
        kani::assume(s.n == 0 || s.t[s.n - 1] <= now);
        kani::assume(ghost_j(&l, id, at(b, t)));
        let other = any_id();
        kani::assume(other != id);
        let _ = l.try_next(other, at(b, now));
        assert!(ghost_j(&l, id, at(b, t)));
    }
}

/// J(id,T) and now >= T + limit*interval  =>  the request is accepted
fn accepts_after_idle_for_limit_times_interval(n: usize) {
    let s = any_spec(n);
    let b = base();
    let id = any_id();
    let t = any_time(); // the identity's last request
    let now = any_time();
    kani::assume(s.n == 0 || s.t[s.n - 1] <= now);
    kani::assume((now as u64) >= (t as u64) + (s.limit as u64) * (s.interval as u64));
    let mut l = build(&s, b);
    kani::assume(ghost_j(&l, id, at(b, t)));
    kani::cover!(s.n == 0 || real_tokens(&l, id) == 0);
    assert!(l.try_next(id, at(b, now)), "an identity idle for limit*interval was refused");
}

/// the per-IP limiter ignores the peer id: with limit 1, a second request from the
/// same IP is refused whichever peer sends it, and a different IP is served
#[kani::proof]
#[kani::unwind(12)]
fn per_ip_limiter_ignores_the_peer_id() {
    let mut l = new_per_ip(GenericRateLimiterConfig { limit: NonZeroU32::new(1).unwrap(), interval: Duration::from_secs(1) });
    let p1 = PeerId::from_multihash(libp2p_core::multihash::Multihash::<64>::wrap(0, &[kani::any::<u8>()]).unwrap()).unwrap();
    let p2 = PeerId::from_multihash(libp2p_core::multihash::Multihash::<64>::wrap(0, &[kani::any::<u8>()]).unwrap()).unwrap();
    let x: u32 = kani::any();
    let y: u32 = kani::any();
    kani::assume(x != y);
    let ax = Multiaddr::empty().with(Protocol::Ip4(Ipv4Addr::from(x)));
    let ay = Multiaddr::empty().with(Protocol::Ip4(Ipv4Addr::from(y)));
    let now: Instant = unsafe { std::mem::zeroed() };
    assert!(l.try_next(p1, &ax, now));
    assert!(!l.try_next(p2, &ax, now), "per-IP limiter served the same IP twice because the peer id differed");
    assert!(!l.try_next(p1, &ax, now));
    assert!(l.try_next(p1, &ay, now), "per-IP limiter refused a different IP");
}

/// the window bound itself on one concrete schedule with an interval that is not a
/// whole number of microseconds (limit 2, interval 1500 ns, window 2999 ns):
/// at most limit + floor(2999/1500) = 3 acceptances
#[kani::proof]
#[kani::unwind(8)]
fn window_bound_with_sub_microsecond_interval() {
    let t0: Instant = unsafe { std::mem::zeroed() };
    let mut l = GenericRateLimiter::<u8>::new(GenericRateLimiterConfig {
        limit: NonZeroU32::new(2).unwrap(),
        interval: Duration::from_nanos(1500),
    });
    let mut accepted = 0u32;
    accepted += l.try_next(1, t0) as u32;
    accepted += l.try_next(1, t0) as u32;
    let t1 = t0 + Duration::from_nanos(2999);
    accepted += l.try_next(1, t1) as u32;
    accepted += l.try_next(1, t1) as u32;
    accepted += l.try_next(1, t1) as u32;
    assert!(accepted <= 2 + 1, "C48: more than limit + floor(elapsed/interval) requests accepted in a window (sub-microsecond interval)");
}

/// Vacuity canary: must FAIL (a drained bucket refuses).
fn canary_try_next_always_accepts(n: usize) {
    let s = any_spec(n);
    let b = base();
    let now = any_time();
    kani::assume(s.n == 0 || s.t[s.n - 1] <= now);
    let mut l = build(&s, b);
    assert!(l.try_next(any_id(), at(b, now)));
}

// One harness per number of live buckets (0, 1, 2): the schedule is a heap VecDeque,
// whose length has to be concrete for the solver.
macro_rules! per_bucket_count {
    ($($name:ident => $f:ident($n:expr);)*) => {$(
        #[kani::proof]
        #[kani::unwind(6)]
        fn $name() {
            $f($n)
        }
    )*};
}
per_bucket_count! {
    refill_n0 => refill_adds_floor_elapsed_over_interval_capped_at_limit(0);
    refill_n1 => refill_adds_floor_elapsed_over_interval_capped_at_limit(1);
    refill_n2 => refill_adds_floor_elapsed_over_interval_capped_at_limit(2);
    try_next_n0 => try_next_takes_exactly_one_token_iff_available(0);
    try_next_n1 => try_next_takes_exactly_one_token_iff_available(1);
    try_next_n2 => try_next_takes_exactly_one_token_iff_available(2);
    idle_invariant_n0 => idle_invariant_established_and_preserved(0);
    idle_invariant_n1 => idle_invariant_established_and_preserved(1);
    idle_invariant_n2 => idle_invariant_established_and_preserved(2);
    accepts_after_idle_n0 => accepts_after_idle_for_limit_times_interval(0);
    accepts_after_idle_n1 => accepts_after_idle_for_limit_times_interval(1);
    accepts_after_idle_n2 => accepts_after_idle_for_limit_times_interval(2);
    canary_try_next_always_accepts_n2 => canary_try_next_always_accepts(2);
}
