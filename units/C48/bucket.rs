// C48 — relay rate limiters are token buckets.
//
// Code under contract: the real `GenericRateLimiter::<u8>::{try_next, refill}` and
// the real `new_per_ip` closure (buckets map = dependency shim, schedule = std
// VecDeque).  The contract is the textbook token bucket, written on the abstract
// state "tokens(id)" (a missing bucket holds `limit` tokens):
//
//   refill at `now`:  a bucket whose last refill is >= interval old gains
//                     floor((now - last) / interval) tokens, capped at `limit`
//                     (its refill time becomes `now`); younger buckets are untouched;
//   try_next(id,now): accepted  <=>  tokens(id) after the refill > 0;
//                     accepted   =>  tokens(id) decreases by exactly one;
//                     every other identity keeps its (refilled) tokens.
//
// From these the statement's window bound follows by the standard token-bucket
// lemma (tokens never exceed `limit`, every acceptance costs one token, a bucket
// gains at most floor(elapsed/interval) tokens over any window because
// sum floor(d_i/I) <= floor(sum d_i / I)); that lemma is STATED, not machine-checked.
//
// "always accepts an identity that has been idle for limit*interval" is proved by
// induction with a ghost variable T = time of the identity's last request and the
// invariant  J(id,T): tokens(id) >= 1  or  last_refill(id) <= T :
//   try_next(id, T) establishes J(id, T);  try_next(other, t>=T) preserves it;
//   J(id,T) and now >= T + limit*interval  =>  try_next(id, now) accepts.
//
// Well-formed states (`wf`): every stored balance < limit; the schedule lists
// every bucket id exactly once, sorted by instant; `now` is not before any entry
// (the statement quantifies over non-decreasing timestamps).
// Bound: <= 2 buckets over 3 identities; timestamps whole microseconds within 2^TBITS us of
// an arbitrary base; interval 1..2^IBITS s; limit over all u32 >= 1.

use std::net::Ipv4Addr;

// The bodies of `try_next` and `refill`, cut verbatim out of /repo on every run
// (unit.json `fragments`) and compiled as methods of `FragLimiter`, an environment
// struct with exactly the four fields of GenericRateLimiter.  What differs from the
// shipped type, all of it declared:
//   * `refill_schedule` is `Fifo`, a fixed-array stand-in for std VecDeque (ASSUMED:
//     VecDeque is a FIFO queue; measured reason: with the heap VecDeque CBMC ran out
//     of memory after ~410 s on every state with a live bucket -- grow/realloc paths
//     in each unwound iteration of the refill loop);
//   * `buckets` is whatever `HashMap` the module imports (the dependency shim in the
//     shim tree);
//   * ONE rewrite of the text: `.checked_div(` -> `.verif_checked_div(`.  CBMC cannot
//     decide a 128-bit divider; the stand-in is the mathematical contract of u128
//     division, and the arithmetic around it (as_micros truncation, try_into,
//     saturating add) is Verus' obligation in units/C48/refill_arith.vspec.
// The real GenericRateLimiter (real VecDeque) is still executed by the two
// concrete-schedule harnesses at the end of this file.
pub(crate) struct FragLimiter<Id> {
    limit: u32,
    interval: Duration,
    refill_schedule: Fifo<(Instant, Id)>,
    buckets: HashMap<Id, u32>,
}
include!(concat!(env!("LIBP2P_VERIF_GEN"), "/C48/limiter_fragment.rs"));

/// FIFO stand-in for VecDeque: capacity 4, entries kept compacted at the front, every
/// access at a constant index.  Exceeding the capacity panics with the shim marker
/// (reported UNDECIDED, never as a violation).
pub(crate) struct Fifo<T> {
    slots: [Option<T>; 4],
}
impl<T> Fifo<T> {
    fn new() -> Self {
        Fifo { slots: [None, None, None, None] }
    }
    pub(crate) fn front(&self) -> Option<&T> {
        self.slots[0].as_ref()
    }
    pub(crate) fn pop_front(&mut self) -> Option<T> {
        let f = self.slots[0].take();
        self.slots[0] = self.slots[1].take();
        self.slots[1] = self.slots[2].take();
        self.slots[2] = self.slots[3].take();
        f
    }
    pub(crate) fn push_back(&mut self, t: T) {
        if self.slots[0].is_none() {
            self.slots[0] = Some(t);
        } else if self.slots[1].is_none() {
            self.slots[1] = Some(t);
        } else if self.slots[2].is_none() {
            self.slots[2] = Some(t);
        } else if self.slots[3].is_none() {
            self.slots[3] = Some(t);
        } else {
            panic!("verif shim capacity exceeded")
        }
    }
    fn len(&self) -> usize {
        self.slots[0].is_some() as usize
            + self.slots[1].is_some() as usize
            + self.slots[2].is_some() as usize
            + self.slots[3].is_some() as usize
    }
    /// entries are compacted: slot i is the i-th element from the front
    fn nth(&self, i: usize) -> Option<&T> {
        match i {
            0 => self.slots[0].as_ref(),
            1 => self.slots[1].as_ref(),
            2 => self.slots[2].as_ref(),
            3 => self.slots[3].as_ref(),
            _ => None,
        }
    }
}

/// operands of the division stay below this in every harness (asserted, never assumed)
const DIV_BOUND: u128 = 1 << 31;

/// ghost log of the divisions the extracted text performed: (dividend, divisor, quotient)
static mut DIV_LOG: [(u128, u128, u32); 3] = [(0, 0, 0); 3];
static mut DIV_CALLS: usize = 0;
fn div_log(i: usize) -> (u128, u128, u32) {
    unsafe {
        match i {
            0 => DIV_LOG[0],
            1 => DIV_LOG[1],
            _ => DIV_LOG[2],
        }
    }
}
fn div_calls() -> usize {
    unsafe { DIV_CALLS }
}

pub(crate) trait VerifCheckedDiv {
    fn verif_checked_div(self, rhs: u128) -> Option<u128>;
}
impl VerifCheckedDiv for u128 {
    /// ASSUMED contract of `u128::checked_div`: None for a zero divisor, otherwise the
    /// unique q with q*rhs <= self < (q+1)*rhs.  Each call is recorded in the ghost log,
    /// so a harness states "the division was applied to THESE operands and its quotient
    /// was used THUS" without re-deriving the quotient (no second multiplier to match).
    fn verif_checked_div(self, rhs: u128) -> Option<u128> {
        if rhs == 0 {
            return None;
        }
        assert!(self < DIV_BOUND && rhs < DIV_BOUND, "C48 harness bound: division operands below 2^31");
        // operands and quotient are structurally 32 bits wide: one 32x32 multiplier
        let a = (self as u32) as u64;
        let b = (rhs as u32) as u64;
        let q32 = kani::any::<u32>();
        let q = q32 as u64;
        kani::assume(q * b <= a && a - q * b < b);
        // consequences of the line above, spelled out for the solver (not extra assumptions)
        kani::assume(q <= a);
        kani::assume(a < b || q >= 1);
        unsafe {
            match DIV_CALLS {
                0 => DIV_LOG[0] = (self, rhs, q32),
                1 => DIV_LOG[1] = (self, rhs, q32),
                2 => DIV_LOG[2] = (self, rhs, q32),
                _ => panic!("verif shim capacity exceeded"),
            }
            DIV_CALLS += 1;
        }
        Some(q as u128)
    }
}

const TBITS: u32 = 10; // (2^10 us) * 10^3 ns stays below DIV_BOUND (and below 10^9: no carry into seconds)
const IBITS: u32 = 6;

fn base() -> Instant {
    // the origin is the zero Instant: the limiter only ever uses differences of Instants, and a
    // symbolic whole-second origin made `duration_since(..).as_nanos()` (u128 multiply of a
    // symbolic seconds field that is provably 0) too expensive for CBMC (900 s timeouts)
    unsafe { std::mem::zeroed() }
}
fn at(b: Instant, t: u32) -> Instant {
    b + Duration::new(0, t * 1000)
}
fn any_time() -> u32 {
    let t: u32 = kani::any();
    kani::assume(t < (1 << TBITS));
    t
}
fn any_id() -> u8 {
    let i: u8 = kani::any();
    kani::assume(i < 3);
    i
}

/// abstract state: up to two buckets (id, last refill time, balance)
#[derive(Clone, Copy)]
struct Spec {
    limit: u32,
    interval: u32, // microseconds
    n: usize,
    id: [u8; 2],
    t: [u32; 2],
    bal: [u32; 2],
}

fn any_spec(n: usize) -> Spec {
    let s = Spec {
        limit: kani::any(),
        interval: kani::any(),
        n,
        id: [any_id(), any_id()],
        t: [any_time(), any_time()],
        bal: [kani::any(), kani::any()],
    };
    kani::assume(s.limit >= 1);
    kani::assume(s.interval >= 1 && s.interval < (1 << IBITS));
    kani::assume(s.id[0] != s.id[1]);
    kani::assume(s.t[0] <= s.t[1]); // schedule sorted
    kani::assume(s.bal[0] < s.limit && s.bal[1] < s.limit);
    s
}

fn build(s: &Spec, b: Instant) -> FragLimiter<u8> {
    // same initial state as GenericRateLimiter::new (which also asserts a non-zero interval)
    let mut l = FragLimiter::<u8> {
        limit: NonZeroU32::new(s.limit).unwrap().into(),
        interval: Duration::new(0, s.interval * 1000),
        refill_schedule: Fifo::new(),
        buckets: Default::default(),
    };
    assert!(!l.interval.is_zero());
    let mut i = 0;
    while i < 2 {
        if i < s.n {
            l.buckets.insert(s.id[i], s.bal[i]);
            l.refill_schedule.push_back((at(b, s.t[i]), s.id[i]));
        }
        i += 1;
    }
    l
}

/// tokens of `id` in the abstract state (missing bucket = full)
fn tokens(s: &Spec, id: u8) -> u32 {
    let mut i = 0;
    while i < 2 {
        if i < s.n && s.id[i] == id {
            return s.bal[i];
        }
        i += 1;
    }
    s.limit
}
fn last_refill(s: &Spec, id: u8) -> Option<u32> {
    let mut i = 0;
    while i < 2 {
        if i < s.n && s.id[i] == id {
            return Some(s.t[i]);
        }
        i += 1;
    }
    None
}

/// index of `id`'s bucket in the abstract state (= its position in the schedule)
fn spec_index(s: &Spec, id: u8) -> usize {
    if s.n > 0 && s.id[0] == id { 0 } else { 1 }
}

/// The token-bucket refill of bucket `i`, as a relation between the abstract state and
/// the refilled amount `r` at time `now`:
///   not yet due (now - t < interval):  r == bal, no division performed for it;
///   due:  the i-th division (buckets are refilled in schedule order and the due ones
///         are a prefix of the sorted schedule) was applied to exactly
///         (elapsed, interval) -- in nanoseconds, the full resolution of Duration; the
///         harness's abstract time unit is the microsecond --
///         and r == min(limit, bal + quotient).
/// With the division contract (quotient = floor) this is: r = min(limit, bal +
/// floor(elapsed/interval)), in particular at most floor(elapsed/interval) tokens are
/// added and at least one.  No multiplication is re-done here.
fn refilled_ok(s: &Spec, i: usize, now: u32, r: u32) -> bool {
    let d = now - s.t[i];
    if d < s.interval {
        return r == s.bal[i] && div_calls() <= i;
    }
    let (a, b, q) = div_log(i);
    div_calls() > i
        && a == (d as u128) * 1_000
        && b == (s.interval as u128) * 1_000
        && r as u64 == (s.bal[i] as u64 + q as u64).min(s.limit as u64)
        && q >= 1
}
/// does the refill at `now` touch the bucket (is it due)?
fn due(interval: u32, t: u32, now: u32) -> bool {
    now - t >= interval
}

/// concrete tokens / refill time of `id` in the real limiter
fn real_tokens(l: &FragLimiter<u8>, id: u8) -> u32 {
    match l.buckets.get(&id) {
        Some(b) => *b,
        None => l.limit,
    }
}
fn real_last_refill(l: &FragLimiter<u8>, id: u8) -> Option<Instant> {
    let mut i = 0;
    while i < 4 {
        if let Some((t, x)) = l.refill_schedule.nth(i) {
            if *x == id {
                return Some(*t);
            }
        }
        i += 1;
    }
    None
}

fn real_wf(l: &FragLimiter<u8>, now: Instant) -> bool {
    let n = l.refill_schedule.len();
    if n != l.buckets.len() || n > 3 {
        return false;
    }
    let mut ok = true;
    let mut i = 0;
    while i < 3 {
        if i < n {
            match l.refill_schedule.nth(i) {
                None => ok = false, // not compacted
                Some(&(t, id)) => {
                    match l.buckets.get(&id) {
                        Some(b) => ok &= *b < l.limit,
                        None => ok = false,
                    }
                    ok &= t <= now;
                    let mut j = 0;
                    while j < i {
                        if let Some(&(tj, idj)) = l.refill_schedule.nth(j) {
                            ok &= idj != id && tj <= t;
                        }
                        j += 1;
                    }
                }
            }
        }
        i += 1;
    }
    ok
}

/// after `refill(now)` (and `spent` tokens taken by this call) the real state of identity
/// `id` is a token-bucket refill of its abstract state
fn check_refilled(l: &FragLimiter<u8>, s: &Spec, b: Instant, id: u8, now: u32, spent: u32) {
    let have = real_tokens(l, id);
    match last_refill(s, id) {
        None => {
            // no bucket: full, minus what this call spent
            assert!(have == s.limit - spent);
            if spent > 0 {
                assert!(real_last_refill(l, id) == Some(at(b, now)));
            } else {
                assert!(real_last_refill(l, id).is_none());
            }
        }
        Some(t) => {
            assert!(have <= s.limit - spent, "balance above the limit");
            let r = have + spent; // the refilled amount, before this call spent anything
            assert!(
                refilled_ok(s, spec_index(s, id), now, r),
                "tokens after refill are not min(limit, balance + floor(elapsed/interval)) of the right operands"
            );
            if have == s.limit {
                assert!(real_last_refill(l, id).is_none());
            } else if due(s.interval, t, now) || r == s.limit {
                assert!(real_last_refill(l, id) == Some(at(b, now)));
            } else {
                assert!(real_last_refill(l, id) == Some(at(b, t)));
            }
        }
    }
}

/// refill: adds floor(delta/interval) tokens to ready buckets, never above limit, leaves the others alone
fn refill_adds_floor_elapsed_over_interval_capped_at_limit(n: usize) {
    let s = any_spec(n);
    let b = base();
    let now = any_time();
    kani::assume(s.n == 0 || s.t[s.n - 1] <= now);
    let mut l = build(&s, b);
    l.frag_refill(at(b, now));
    assert!(real_wf(&l, at(b, now)));
    check_refilled(&l, &s, b, 0, now, 0);
    check_refilled(&l, &s, b, 1, now, 0);
    check_refilled(&l, &s, b, 2, now, 0);
    kani::cover!(l.buckets.len() == 0);
    kani::cover!(s.n == 0 || (l.buckets.len() == s.n && real_tokens(&l, s.id[0]) > s.bal[0]));
}

/// try_next: accepted <=> a token is available after the refill; costs exactly one; others unaffected
fn try_next_takes_exactly_one_token_iff_available(n: usize) {
    let s = any_spec(n);
    let b = base();
    let now = any_time();
    kani::assume(s.n == 0 || s.t[s.n - 1] <= now);
    let id = any_id();
    let mut l = build(&s, b);
    // a token is available after the refill: no bucket (full), or a positive balance, or due
    let avail = match last_refill(&s, id) {
        None => true,
        Some(t) => tokens(&s, id) > 0 || due(s.interval, t, now),
    };
    let ok = l.frag_try_next(id, at(b, now));
    assert!(real_wf(&l, at(b, now)));
    assert!(ok == avail, "accepted although no token was available, or refused although one was");
    kani::cover!(ok);
    kani::cover!(s.n == 0 || !ok);
    let mut o = 0u8;
    while o < 3 {
        if o != id {
            check_refilled(&l, &s, b, o, now, 0);
        }
        o += 1;
    }
    // an accepted request costs exactly one token of the refilled amount; a refused one costs nothing
    check_refilled(&l, &s, b, id, now, ok as u32);
    if !ok {
        assert!(real_tokens(&l, id) == 0);
    }
}

/// ghost invariant J(id, T): at least one token, or the bucket was last refilled no later than T
fn ghost_j(l: &FragLimiter<u8>, id: u8, t_last_request: Instant) -> bool {
    real_tokens(l, id) >= 1 || real_last_refill(l, id).map_or(false, |r| r <= t_last_request)
}

/// a request by `id` at T establishes J(id, T); a later request by another identity preserves it
fn idle_invariant_established_and_preserved(n: usize) {
    let s = any_spec(n);
    let b = base();
    let id = any_id();
    let mut l = build(&s, b);
    if kani::any() {
        let t = any_time();
        kani::assume(s.n == 0 || s.t[s.n - 1] <= t);
        let _ = l.frag_try_next(id, at(b, t));
        assert!(ghost_j(&l, id, at(b, t)));
    } else {
        let t = any_time(); // the identity's last request
        let now = any_time();
        kani::assume(t <= now);
        kani::assume(s.n == 0 || s.t[s.n - 1] <= now);
        kani::assume(ghost_j(&l, id, at(b, t)));
        let other = any_id();
        kani::assume(other != id);
        let _ = l.frag_try_next(other, at(b, now));
        assert!(ghost_j(&l, id, at(b, t)));
    }
}

/// J(id,T) and now >= T + limit*interval  =>  the request is accepted
fn accepts_after_idle_for_limit_times_interval(n: usize) {
    let s = any_spec(n);
    let b = base();
    let id = any_id();
    let t = any_time(); // the identity's last request
    let now = any_time();
    kani::assume(s.n == 0 || s.t[s.n - 1] <= now);
    kani::assume((now as u64) >= (t as u64) + (s.limit as u64) * (s.interval as u64));
    let mut l = build(&s, b);
    kani::assume(ghost_j(&l, id, at(b, t)));
    kani::cover!(s.n == 0 || real_tokens(&l, id) == 0);
    assert!(l.frag_try_next(id, at(b, now)), "an identity idle for limit*interval was refused");
}

/// the per-IP limiter ignores the peer id: with limit 1, a second request from the
/// same IP is refused whichever peer sends it, and a different IP is served
#[kani::proof]
#[kani::unwind(12)]
fn per_ip_limiter_ignores_the_peer_id() {
    let mut l = new_per_ip(GenericRateLimiterConfig { limit: NonZeroU32::new(1).unwrap(), interval: Duration::from_secs(1) });
    let p1 = PeerId::from_multihash(libp2p_core::multihash::Multihash::<64>::wrap(0, &[kani::any::<u8>()]).unwrap()).unwrap();
    let p2 = PeerId::from_multihash(libp2p_core::multihash::Multihash::<64>::wrap(0, &[kani::any::<u8>()]).unwrap()).unwrap();
    let x: u32 = kani::any();
    let y: u32 = kani::any();
    kani::assume(x != y);
    let ax = Multiaddr::empty().with(Protocol::Ip4(Ipv4Addr::from(x)));
    let ay = Multiaddr::empty().with(Protocol::Ip4(Ipv4Addr::from(y)));
    let now: Instant = unsafe { std::mem::zeroed() };
    assert!(l.try_next(p1, &ax, now));
    assert!(!l.try_next(p2, &ax, now), "per-IP limiter served the same IP twice because the peer id differed");
    assert!(!l.try_next(p1, &ax, now));
    assert!(l.try_next(p1, &ay, now), "per-IP limiter refused a different IP");
}

/// the window bound itself on one concrete schedule with an interval that is not a
/// whole number of microseconds (limit 2, interval 1500 ns, window 2999 ns):
/// at most limit + floor(2999/1500) = 3 acceptances
#[kani::proof]
#[kani::unwind(8)]
fn window_bound_with_sub_microsecond_interval() {
    let t0: Instant = unsafe { std::mem::zeroed() };
    let mut l = GenericRateLimiter::<u8>::new(GenericRateLimiterConfig {
        limit: NonZeroU32::new(2).unwrap(),
        interval: Duration::from_nanos(1500),
    });
    let mut accepted = 0u32;
    accepted += l.try_next(1, t0) as u32;
    accepted += l.try_next(1, t0) as u32;
    let t1 = t0 + Duration::from_nanos(2999);
    accepted += l.try_next(1, t1) as u32;
    accepted += l.try_next(1, t1) as u32;
    accepted += l.try_next(1, t1) as u32;
    kani::assert(accepted <= 2 + 1, "C48: more than limit + floor(elapsed/interval) requests accepted in a window (sub-microsecond interval)");
}

/// The window bound on the refill step at NANOSECOND granularity, symbolic: one live
/// bucket, any limit, interval 1 ns .. 65 us, timestamps within 8 ms: the tokens a refill
/// adds never exceed floor(elapsed / interval).  (Kani counterpart of the Verus obligation
/// `refill_tokens_at_most_floor_elapsed_over_interval`, bounded.)
#[kani::proof]
#[kani::unwind(6)]
fn refill_gain_at_most_floor_of_elapsed_over_interval_ns() {
    let z: Instant = unsafe { std::mem::zeroed() };
    let limit: u32 = kani::any();
    kani::assume(limit >= 1);
    let interval_ns: u32 = kani::any();
    kani::assume(interval_ns >= 1 && interval_ns < (1 << 16));
    let t: u32 = kani::any();
    let now: u32 = kani::any();
    kani::assume(t <= now && now < (1 << 23));
    let bal: u32 = kani::any();
    kani::assume(bal < limit);
    let mut l = FragLimiter::<u8> {
        limit: NonZeroU32::new(limit).unwrap().into(),
        interval: Duration::new(0, interval_ns),
        refill_schedule: Fifo::new(),
        buckets: Default::default(),
    };
    l.buckets.insert(1, bal);
    l.refill_schedule.push_back((z + Duration::new(0, t), 1));
    l.frag_refill(z + Duration::new(0, now));
    let after = real_tokens(&l, 1);
    assert!(after <= limit && after >= bal);
    let gain = (after - bal) as u64;
    kani::cover!(gain > 0);
    kani::cover!(gain == 0);
    kani::assert(
        gain * (interval_ns as u64) <= (now - t) as u64,
        "C48: refill added more than floor(elapsed/interval) tokens",
    );
}

/// Vacuity canary: must FAIL (a drained bucket refuses).
fn canary_try_next_always_accepts(n: usize) {
    let s = any_spec(n);
    let b = base();
    let now = any_time();
    kani::assume(s.n == 0 || s.t[s.n - 1] <= now);
    let mut l = build(&s, b);
    assert!(l.frag_try_next(any_id(), at(b, now)));
}

// One harness per number of live buckets (0, 1, 2): the schedule is a heap VecDeque,
// whose length has to be concrete for the solver.
macro_rules! per_bucket_count {
    ($($name:ident => $f:ident($n:expr);)*) => {$(
        #[kani::proof]
        #[kani::unwind(5)]
        fn $name() {
            $f($n)
        }
    )*};
}
per_bucket_count! {
    refill_n0 => refill_adds_floor_elapsed_over_interval_capped_at_limit(0);
    refill_n1 => refill_adds_floor_elapsed_over_interval_capped_at_limit(1);
    refill_n2 => refill_adds_floor_elapsed_over_interval_capped_at_limit(2);
    try_next_n0 => try_next_takes_exactly_one_token_iff_available(0);
    try_next_n1 => try_next_takes_exactly_one_token_iff_available(1);
    try_next_n2 => try_next_takes_exactly_one_token_iff_available(2);
    idle_invariant_n0 => idle_invariant_established_and_preserved(0);
    idle_invariant_n1 => idle_invariant_established_and_preserved(1);
    idle_invariant_n2 => idle_invariant_established_and_preserved(2);
    accepts_after_idle_n0 => accepts_after_idle_for_limit_times_interval(0);
    accepts_after_idle_n1 => accepts_after_idle_for_limit_times_interval(1);
    accepts_after_idle_n2 => accepts_after_idle_for_limit_times_interval(2);
    canary_try_next_always_accepts_n2 => canary_try_next_always_accepts(2);
}
