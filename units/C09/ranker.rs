// C09 — smart-dial ranking.
//  (1) is_global_ipv4 / is_global_ipv6 against the same independent IANA table as
//      C22 (complete over u32 / u128);
//  (2) is_global_addr: contract from the statement — private/loopback/link-local
//      IPs, Ip6zone and localhost names are NOT global; public IPs and non-local
//      DNS names ARE;
//  (3) rank_dials on concrete address multisets (real Multiaddr): output is a
//      permutation of the input, group order private <= public <= relay <= no-IP,
//      QUIC no later than TCP inside a group.
use futures::FutureExt;

// ---- (1) IP predicates: the C22 registry table ---------------------------------
const fn in4(a: u32, net: u32, len: u32) -> bool {
    let mask: u32 = if len == 0 { 0 } else { u32::MAX << (32 - len) };
    a & mask == net & mask
}
const fn v4(a: u8, b: u8, c: u8, d: u8) -> u32 {
    u32::from_be_bytes([a, b, c, d])
}
fn spec4_either(a: u32) -> bool {
    a == v4(192, 0, 0, 9) || a == v4(192, 0, 0, 10) || in4(a, v4(192, 88, 99, 0), 24)
        || in4(a, v4(192, 31, 196, 0), 24) || in4(a, v4(192, 52, 193, 0), 24) || in4(a, v4(192, 175, 48, 0), 24)
}
fn spec4_not_global(a: u32) -> bool {
    in4(a, v4(0, 0, 0, 0), 8) || in4(a, v4(10, 0, 0, 0), 8) || in4(a, v4(100, 64, 0, 0), 10)
        || in4(a, v4(127, 0, 0, 0), 8) || in4(a, v4(169, 254, 0, 0), 16) || in4(a, v4(172, 16, 0, 0), 12)
        || (in4(a, v4(192, 0, 0, 0), 24) && !spec4_either(a)) || in4(a, v4(192, 0, 2, 0), 24)
        || in4(a, v4(192, 168, 0, 0), 16) || in4(a, v4(198, 18, 0, 0), 15) || in4(a, v4(198, 51, 100, 0), 24)
        || in4(a, v4(203, 0, 113, 0), 24) || in4(a, v4(240, 0, 0, 0), 4)
}
const fn in6(a: u128, net: u128, len: u32) -> bool {
    let mask: u128 = if len == 0 { 0 } else { u128::MAX << (128 - len) };
    a & mask == net & mask
}
const fn s6(s: [u16; 8]) -> u128 {
    ((s[0] as u128) << 112) | ((s[1] as u128) << 96) | ((s[2] as u128) << 80) | ((s[3] as u128) << 64)
        | ((s[4] as u128) << 48) | ((s[5] as u128) << 32) | ((s[6] as u128) << 16) | (s[7] as u128)
}
fn spec6_either(a: u128) -> bool {
    a == s6([0x2001, 1, 0, 0, 0, 0, 0, 1]) || a == s6([0x2001, 1, 0, 0, 0, 0, 0, 2])
        || in6(a, s6([0x2001, 3, 0, 0, 0, 0, 0, 0]), 32) || in6(a, s6([0x2001, 4, 0x112, 0, 0, 0, 0, 0]), 48)
        || in6(a, s6([0x2001, 0x20, 0, 0, 0, 0, 0, 0]), 28) || in6(a, s6([0x2001, 0x30, 0, 0, 0, 0, 0, 0]), 28)
        || in6(a, s6([0x2002, 0, 0, 0, 0, 0, 0, 0]), 16) || in6(a, s6([0x64, 0xff9b, 0, 0, 0, 0, 0, 0]), 96)
        || in6(a, s6([0x2620, 0x4f, 0x8000, 0, 0, 0, 0, 0]), 48) || in6(a, s6([0x100, 0, 0, 1, 0, 0, 0, 0]), 64)
        // documentation / SRv6 blocks newer than the std implementation this module mirrors:
        // accepted either way here (C22 decides them for the global-only transport)
        || in6(a, s6([0x3fff, 0, 0, 0, 0, 0, 0, 0]), 20) || in6(a, s6([0x5f00, 0, 0, 0, 0, 0, 0, 0]), 16)
}
fn spec6_not_global(a: u128) -> bool {
    (a == 0 || a == 1 || in6(a, s6([0, 0, 0, 0, 0, 0xffff, 0, 0]), 96)
        || in6(a, s6([0x64, 0xff9b, 1, 0, 0, 0, 0, 0]), 48) || in6(a, s6([0x100, 0, 0, 0, 0, 0, 0, 0]), 64)
        || in6(a, s6([0x2001, 0, 0, 0, 0, 0, 0, 0]), 23) || in6(a, s6([0x2001, 0xdb8, 0, 0, 0, 0, 0, 0]), 32)
        || in6(a, s6([0xfc00, 0, 0, 0, 0, 0, 0, 0]), 7) || in6(a, s6([0xfe80, 0, 0, 0, 0, 0, 0, 0]), 10))
        && !spec6_either(a)
}

#[kani::proof]
fn ranker_ipv4_global_matches_registry() {
    let raw: u32 = kani::any();
    let g = is_global_ipv4(&Ipv4Addr::from(raw));
    if spec4_not_global(raw) {
        assert!(!g);
    } else if !spec4_either(raw) {
        assert!(g);
    }
}

#[kani::proof]
fn ranker_ipv6_global_matches_registry() {
    let raw: u128 = kani::any();
    let g = is_global_ipv6(&Ipv6Addr::from(raw));
    if spec6_not_global(raw) {
        assert!(!g);
    } else if !spec6_either(raw) {
        assert!(g);
    }
}

// ---- (2) is_global_addr ---------------------------------------------------------
fn addr(parts: &[Protocol<'static>]) -> Multiaddr {
    let mut a = Multiaddr::empty();
    for p in parts {
        a = a.with(p.clone());
    }
    a
}

/// IP-bearing addresses: global exactly when the (first) IP is.
#[kani::proof]
#[kani::unwind(24)]
fn global_addr_follows_ip4() {
    let raw: u32 = kani::any();
    let a = addr(&[Protocol::Ip4(Ipv4Addr::from(raw)), Protocol::Tcp(kani::any())]);
    let g = is_global_addr(&a);
    if spec4_not_global(raw) {
        assert!(!g);
    } else if !spec4_either(raw) {
        assert!(g);
    }
}

#[kani::proof]
#[kani::unwind(24)]
fn global_addr_follows_ip6() {
    let raw: u128 = kani::any();
    let a = addr(&[Protocol::Ip6(Ipv6Addr::from(raw)), Protocol::Udp(kani::any()), Protocol::QuicV1]);
    let g = is_global_addr(&a);
    if spec6_not_global(raw) {
        assert!(!g);
    } else if !spec6_either(raw) {
        assert!(g);
    }
}

/// DNS names: localhost and *.localhost are local; any other name is globally routable.
#[kani::proof]
#[kani::unwind(40)]
fn global_addr_dns_names() {
    assert!(!is_global_addr(&addr(&[Protocol::Dns("localhost".into()), Protocol::Tcp(1)])));
    assert!(!is_global_addr(&addr(&[Protocol::Dns4("a.localhost".into()), Protocol::Tcp(1)])));
    assert!(is_global_addr(&addr(&[Protocol::Dns("example.com".into()), Protocol::Tcp(443)])));
    assert!(is_global_addr(&addr(&[Protocol::Dns6("ipfs.io".into()), Protocol::Tcp(443)])));
}

// ---- (3) rank_dials ---------------------------------------------------------------
fn dial(a: Multiaddr) -> PendingDial {
    PendingDial { addr: a, fut: futures::future::pending().boxed() }
}

/// group index from the statement: 0 private/localhost, 1 public IP, 2 relay, 3 no IP component
fn group_of(a: &Multiaddr) -> u8 {
    let has_ip = a.iter().any(|p| matches!(p, Protocol::Ip4(_) | Protocol::Ip6(_)));
    if a.iter().any(|p| matches!(p, Protocol::P2pCircuit)) {
        2
    } else if has_ip {
        let global = a.iter().find_map(|p| match p {
            Protocol::Ip4(i) => Some(!spec4_not_global(u32::from(i))),
            Protocol::Ip6(i) => Some(!spec6_not_global(u128::from(i))),
            _ => None,
        });
        if global == Some(true) { 1 } else { 0 }
    } else {
        let local_name = a.iter().any(|p| match p {
            Protocol::Dns(d) | Protocol::Dns4(d) | Protocol::Dns6(d) => d == "localhost" || d.ends_with(".localhost"),
            _ => false,
        });
        if local_name { 0 } else { 3 }
    }
}

fn is_quic(a: &Multiaddr) -> bool {
    a.iter().any(|p| matches!(p, Protocol::Quic | Protocol::QuicV1))
}
fn is_tcp(a: &Multiaddr) -> bool {
    a.iter().any(|p| matches!(p, Protocol::Tcp(_)))
}

fn check_ranking(input: Vec<Multiaddr>) {
    let n = input.len();
    let out = rank_dials(input.iter().cloned().map(dial).collect());
    // permutation: same length and every input address occurs as often as in the input
    assert!(out.len() == n);
    for a in input.iter() {
        let cin = input.iter().filter(|x| *x == a).count();
        let cout = out.iter().filter(|(_, d)| &d.addr == a).count();
        assert!(cin == cout);
    }
    // group order and QUIC-before-TCP inside a group, by position and by delay
    for i in 0..out.len() {
        for j in (i + 1)..out.len() {
            let (gi, gj) = (group_of(&out[i].1.addr), group_of(&out[j].1.addr));
            assert!(gi <= gj);
            if gi < gj {
                assert!(out[i].0 <= out[j].0);
            }
            if gi == gj && is_tcp(&out[i].1.addr) && !is_quic(&out[i].1.addr) && is_quic(&out[j].1.addr) {
                // a TCP address placed before a QUIC address of the same group must not start earlier
                assert!(out[j].0 <= out[i].0);
            }
        }
    }
    std::mem::forget(out);
}

fn ip4(a: u8, b: u8, c: u8, d: u8) -> Protocol<'static> {
    Protocol::Ip4(Ipv4Addr::new(a, b, c, d))
}

#[kani::proof]
#[kani::unwind(40)]
fn rank_private_public_relay() {
    check_ranking(vec![
        addr(&[ip4(8, 8, 8, 8), Protocol::Tcp(4001)]),
        addr(&[ip4(9, 9, 9, 9), Protocol::Tcp(1), Protocol::P2pCircuit]),
        addr(&[ip4(192, 168, 1, 5), Protocol::Udp(4001), Protocol::QuicV1]),
    ]);
}

#[kani::proof]
#[kani::unwind(40)]
fn rank_dns_names_last_localhost_first() {
    check_ranking(vec![
        addr(&[Protocol::Dns("example.com".into()), Protocol::Tcp(443)]),
        addr(&[ip4(8, 8, 4, 4), Protocol::Udp(4001), Protocol::QuicV1]),
        addr(&[Protocol::Dns("localhost".into()), Protocol::Tcp(4001)]),
    ]);
}

#[kani::proof]
#[kani::unwind(40)]
fn rank_quic_before_tcp_public() {
    check_ranking(vec![
        addr(&[ip4(8, 8, 8, 8), Protocol::Tcp(4001)]),
        addr(&[ip4(8, 8, 8, 8), Protocol::Udp(4001), Protocol::QuicV1]),
        addr(&[Protocol::Ip6(Ipv6Addr::new(0x2606, 0x4700, 0, 0, 0, 0, 0, 0x1111)), Protocol::Tcp(4001)]),
    ]);
}

/// Vacuity canary: must FAIL.
#[kani::proof]
fn canary_every_ip4_private() {
    let raw: u32 = kani::any();
    assert!(!is_global_ipv4(&Ipv4Addr::from(raw)));
}
