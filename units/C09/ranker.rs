// C09 — smart-dial ranking, part 1: the IP predicates and is_global_addr on the
// REAL Multiaddr.  (Part 2, model.rs: the verbatim text of rank_dials /
// group_delays / score / is_global_addr on a sequence model of Multiaddr.)
//
// Contract for the IP predicates, from the statement ("private IPs and localhost
// names first, then public IPs"):
//   * RFC 1918 private, loopback and link-local IPv4, and ::1, fe80::/10, fc00::/7
//     MUST be classified not-global (they are the statement's "private IPs");
//   * an address outside every special-purpose block of the IANA registries (and
//     outside multicast) MUST be classified global ("public IPs");
//   * every other special-purpose block (documentation, benchmarking, CGNAT,
//     reserved, protocol assignments, 6to4, ...) is accepted either way: the
//     statement does not place it.

// ---- specification tables --------------------------------------------------------
const fn in4(a: u32, net: u32, len: u32) -> bool {
    let mask: u32 = if len == 0 { 0 } else { u32::MAX << (32 - len) };
    a & mask == net & mask
}
const fn v4(a: u8, b: u8, c: u8, d: u8) -> u32 {
    u32::from_be_bytes([a, b, c, d])
}
/// the statement's "private IPs" (IPv4): RFC 1918, loopback, link-local
pub(crate) fn private4(a: u32) -> bool {
    in4(a, v4(10, 0, 0, 0), 8) || in4(a, v4(172, 16, 0, 0), 12) || in4(a, v4(192, 168, 0, 0), 16)
        || in4(a, v4(127, 0, 0, 0), 8) || in4(a, v4(169, 254, 0, 0), 16)
}
/// any block of the IANA IPv4 special-purpose registry, or multicast
pub(crate) fn special4(a: u32) -> bool {
    private4(a) || in4(a, v4(0, 0, 0, 0), 8) || in4(a, v4(100, 64, 0, 0), 10) || in4(a, v4(192, 0, 0, 0), 24)
        || in4(a, v4(192, 0, 2, 0), 24) || in4(a, v4(192, 31, 196, 0), 24) || in4(a, v4(192, 52, 193, 0), 24)
        || in4(a, v4(192, 88, 99, 0), 24) || in4(a, v4(192, 175, 48, 0), 24) || in4(a, v4(198, 18, 0, 0), 15)
        || in4(a, v4(198, 51, 100, 0), 24) || in4(a, v4(203, 0, 113, 0), 24) || in4(a, v4(240, 0, 0, 0), 4)
        || in4(a, v4(224, 0, 0, 0), 4)
}
const fn in6(a: u128, net: u128, len: u32) -> bool {
    let mask: u128 = if len == 0 { 0 } else { u128::MAX << (128 - len) };
    a & mask == net & mask
}
const fn s6(s: [u16; 8]) -> u128 {
    ((s[0] as u128) << 112) | ((s[1] as u128) << 96) | ((s[2] as u128) << 80) | ((s[3] as u128) << 64)
        | ((s[4] as u128) << 48) | ((s[5] as u128) << 32) | ((s[6] as u128) << 16) | (s[7] as u128)
}
/// the statement's "private IPs" (IPv6): loopback, link-local unicast, unique local
pub(crate) fn private6(a: u128) -> bool {
    a == 1 || in6(a, s6([0xfe80, 0, 0, 0, 0, 0, 0, 0]), 10) || in6(a, s6([0xfc00, 0, 0, 0, 0, 0, 0, 0]), 7)
}
/// any block of the IANA IPv6 special-purpose registry, or multicast
pub(crate) fn special6(a: u128) -> bool {
    private6(a) || a == 0 || in6(a, s6([0, 0, 0, 0, 0, 0xffff, 0, 0]), 96)
        || in6(a, s6([0x64, 0xff9b, 0, 0, 0, 0, 0, 0]), 96) || in6(a, s6([0x64, 0xff9b, 1, 0, 0, 0, 0, 0]), 48)
        || in6(a, s6([0x100, 0, 0, 0, 0, 0, 0, 0]), 64) || in6(a, s6([0x100, 0, 0, 1, 0, 0, 0, 0]), 64)
        || in6(a, s6([0x2001, 0, 0, 0, 0, 0, 0, 0]), 23) || in6(a, s6([0x2001, 0xdb8, 0, 0, 0, 0, 0, 0]), 32)
        || in6(a, s6([0x2002, 0, 0, 0, 0, 0, 0, 0]), 16) || in6(a, s6([0x2620, 0x4f, 0x8000, 0, 0, 0, 0, 0]), 48)
        || in6(a, s6([0x3fff, 0, 0, 0, 0, 0, 0, 0]), 20) || in6(a, s6([0x5f00, 0, 0, 0, 0, 0, 0, 0]), 16)
        || in6(a, s6([0xff00, 0, 0, 0, 0, 0, 0, 0]), 8)
}

// ---- (1) IP predicates, complete over u32 / u128 -----------------------------------
#[kani::proof]
fn ranker_ipv4_private_and_public() {
    let raw: u32 = kani::any();
    let g = is_global_ipv4(&Ipv4Addr::from(raw));
    kani::cover!(private4(raw));
    kani::cover!(!special4(raw));
    if private4(raw) {
        assert!(!g);
    } else if !special4(raw) {
        assert!(g);
    }
}

#[kani::proof]
fn ranker_ipv6_private_and_public() {
    let raw: u128 = kani::any();
    let g = is_global_ipv6(&Ipv6Addr::from(raw));
    kani::cover!(private6(raw));
    kani::cover!(!special6(raw));
    if private6(raw) {
        assert!(!g);
    } else if !special6(raw) {
        assert!(g);
    }
}

/// Vacuity canary: must FAIL.
#[kani::proof]
fn canary_every_ip4_private() {
    let raw: u32 = kani::any();
    assert!(!is_global_ipv4(&Ipv4Addr::from(raw)));
}

// ---- (2) is_global_addr on the real Multiaddr: follows the IP component --------------
#[kani::proof]
#[kani::unwind(24)]
fn real_global_addr_follows_ip4() {
    let raw: u32 = kani::any();
    let a = Multiaddr::from(Protocol::Ip4(Ipv4Addr::from(raw))).with(Protocol::Tcp(kani::any()));
    let g = is_global_addr(&a);
    if private4(raw) {
        assert!(!g);
    } else if !special4(raw) {
        assert!(g);
    }
    std::mem::forget(a);
}

#[kani::proof]
#[kani::unwind(24)]
fn real_global_addr_follows_ip6() {
    let raw: u128 = kani::any();
    let a = Multiaddr::from(Protocol::Ip6(Ipv6Addr::from(raw))).with(Protocol::Udp(kani::any())).with(Protocol::QuicV1);
    let g = is_global_addr(&a);
    if private6(raw) {
        assert!(!g);
    } else if !special6(raw) {
        assert!(g);
    }
    std::mem::forget(a);
}
