// C09 (model group) — the texts of rank_dials, group_delays, score and
// is_global_addr, extracted verbatim from /repo on every run, compiled against a
// *sequence model* of Multiaddr (a prefix-packed array of at most N components —
// a `Copy` model of the `multiaddr::Protocol` enum with the same variant names —
// with the one method these functions use, `iter`)
// and a two-field PendingDial (address + identity tag instead of the dial future,
// which the ranker never touches).  is_global_ipv4 / is_global_ipv6 and the delay
// constants are the REAL items of dial_ranker.rs.
// ASSUMED (trusted base): Multiaddr::iter yields the address's components in order.
//
// Contract, from the statement:
//   is_global_addr: private IPs and localhost names are not global; public IPs and
//     other DNS names are.  Nothing is asserted for addresses with neither an IP
//     nor a DNS component, nor for IPs in special-purpose blocks the statement does
//     not place (see ranker.rs).
//   rank_dials (checked in three parts because the four group vectors get a symbolic
//     length when the whole function runs on symbolic addresses — measured: timeout
//     at 600 s for 2 addresses — : (1) the categorisation chain of the loop, one
//     dial at a time; (2) group_delays on one group; (3) the text after the loop on
//     groups of concrete sizes): the output holds every input dial exactly once; positions are ordered
//     by group (0 private IP / localhost name, 1 public IP, 2 relay, 3 no IP
//     component); no group-3 address has a smaller delay than an address of an
//     earlier group; inside a group a QUIC address has a delay no larger than a TCP
//     address.  Delays are `Duration`s computed without overflow (no panic).
pub(crate) const N: usize = 4;

/// Model of `multiaddr::Protocol`: same variant names, `Copy` payloads (names are
/// `&'static str`, a peer id is an opaque number).  The real enum owns `Cow<str>`
/// payloads whose clone/drop glue alone made these harnesses time out (unit.json
/// `measured`).  The ranker only pattern-matches on variants, reads ports and IPs
/// and calls `== "localhost"` / `ends_with(".localhost")` on DNS names.
#[derive(Clone, Copy, PartialEq, Eq, Debug)]
pub(crate) enum Protocol {
    Dccp(u16),
    Dns(&'static str),
    Dns4(&'static str),
    Dns6(&'static str),
    Dnsaddr(&'static str),
    Http,
    Https,
    Ip4(Ipv4Addr),
    Ip6(Ipv6Addr),
    Ip6zone(&'static str),
    Memory(u64),
    P2p(u32),
    P2pCircuit,
    Quic,
    QuicV1,
    Sctp(u16),
    Tcp(u16),
    Tls,
    Noise,
    Udp(u16),
    WebRTCDirect,
    WebTransport,
    Ws(&'static str),
    Wss(&'static str),
}

#[derive(Clone, Copy, PartialEq, Eq, Debug)]
pub(crate) struct Multiaddr {
    /// prefix-packed: Some.. then None..
    pub(crate) items: [Option<Protocol>; N],
}

impl Multiaddr {
    pub(crate) fn iter(&self) -> impl Iterator<Item = Protocol> + '_ {
        self.items.iter().map_while(|x| *x)
    }
}

pub(crate) struct PendingDial {
    pub(crate) addr: Multiaddr,
    /// identity of the dial (stands for the boxed future of the real struct)
    pub(crate) id: u8,
}

/// stand-in for the four `Vec<PendingDial>` buckets inside the categorisation loop
/// of rank_dials: counts what is pushed
pub(crate) struct Bucket {
    pub(crate) got: u8,
}
impl Bucket {
    pub(crate) fn push(&mut self, _dial: PendingDial) {
        self.got += 1;
    }
}

// group_delays, score, is_global_addr — verbatim fn items; `Multiaddr` and
// `PendingDial` resolve to the model above, everything else to the real module.
include!(concat!(env!("LIBP2P_VERIF_GEN"), "/C09/ranker_fns.rs"));
// the two halves of rank_dials' body — verbatim fragments:
//   categorise(dial, relay, public, private, other): the if/else chain of the loop
//   assemble(private, public, relay, other): everything after the loop
include!(concat!(env!("LIBP2P_VERIF_GEN"), "/C09/rank_fragments.rs"));

// ---- the statement's vocabulary -----------------------------------------------------

/// "localhost names": `localhost` and names under the `.localhost` TLD
fn local_name(n: &[u8]) -> bool {
    n == b"localhost" || (n.len() >= 10 && &n[n.len() - 10..] == b".localhost")
}

const NAMES: [&str; 5] = ["localhost", "a.localhost", "example.com", "localhost.example.com", "notlocalhost"];

#[derive(Clone, Copy)]
struct Info {
    /// 0 private IP / localhost name, 1 public IP, 2 relay, 3 no IP component (DNS name)
    group: u8,
    quic: bool,
    tcp: bool,
}

/// One address of the statement's alphabet: [host, transport.., (p2p-circuit)].
/// host: IPv4/IPv6 (any private or public address) or, if `with_dns`, a DNS name
/// (/dns, /dns4, /dns6; localhost and non-local names); transport: TCP, QUIC-v1,
/// QUIC draft-29, WebTransport, WebRTC-direct with any port; relay addresses go
/// through a public IP.  The group is fixed by construction, not by running any
/// code of the ranker.
fn any_addr(with_dns: bool) -> (Multiaddr, Info) {
    let mut items: [Option<Protocol>; N] = [None, None, None, None];
    let host: u8 = kani::any();
    let (is_ip, private) = match host {
        0 => {
            let raw: u32 = kani::any();
            kani::assume(private4(raw) || !special4(raw));
            items[0] = Some(Protocol::Ip4(Ipv4Addr::from(raw)));
            (true, private4(raw))
        }
        1 => {
            let raw: u128 = kani::any();
            kani::assume(private6(raw) || !special6(raw));
            items[0] = Some(Protocol::Ip6(Ipv6Addr::from(raw)));
            (true, private6(raw))
        }
        _ => {
            kani::assume(with_dns && host <= 4);
            let k: usize = kani::any();
            kani::assume(k < NAMES.len());
            let name = NAMES[k];
            items[0] = Some(match host {
                2 => Protocol::Dns(name),
                3 => Protocol::Dns4(name),
                _ => Protocol::Dns6(name),
            });
            (false, local_name(NAMES[k].as_bytes()))
        }
    };
    let transport: u8 = kani::any();
    let port: u16 = kani::any();
    let (quic, tcp, used) = match transport {
        0 => {
            items[1] = Some(Protocol::Tcp(port));
            (false, true, 2)
        }
        1 => {
            items[1] = Some(Protocol::Udp(port));
            items[2] = Some(Protocol::QuicV1);
            (true, false, 3)
        }
        2 => {
            items[1] = Some(Protocol::Udp(port));
            items[2] = Some(Protocol::Quic);
            (true, false, 3)
        }
        3 => {
            items[1] = Some(Protocol::Udp(port));
            items[2] = Some(Protocol::QuicV1);
            items[3] = Some(Protocol::WebTransport);
            (true, false, 4)
        }
        _ => {
            kani::assume(transport == 4);
            items[1] = Some(Protocol::Udp(port));
            items[2] = Some(Protocol::WebRTCDirect);
            (false, false, 3)
        }
    };
    let relay: bool = kani::any();
    if relay {
        // relay addresses of the alphabet: through a public IP
        kani::assume(is_ip && !private && used < N);
        items[used] = Some(Protocol::P2pCircuit);
    }
    let group = if relay {
        2
    } else if is_ip {
        if private { 0 } else { 1 }
    } else if private {
        0
    } else {
        3
    };
    (Multiaddr { items }, Info { group, quic, tcp })
}

// ---- is_global_addr ---------------------------------------------------------------------

/// IP hosts (every IPv4 / IPv6 address, any transport of the alphabet)
#[kani::proof]
#[kani::unwind(12)]
fn model_global_addr_ip_hosts() {
    let mut items: [Option<Protocol>; N] = [None, None, None, None];
    let tail = if kani::any() { Protocol::Tcp(kani::any()) } else { Protocol::Udp(kani::any()) };
    // the IP is the first or the second component
    let at: usize = if kani::any() { 0 } else { 1 };
    items[1 - at] = Some(tail);
    if kani::any() {
        let raw: u32 = kani::any();
        items[at] = Some(Protocol::Ip4(Ipv4Addr::from(raw)));
        let g = is_global_addr(&Multiaddr { items });
        kani::cover!(private4(raw));
        kani::cover!(!special4(raw));
        if private4(raw) {
            assert!(!g);
        } else if !special4(raw) {
            assert!(g);
        }
    } else {
        let raw: u128 = kani::any();
        items[at] = Some(Protocol::Ip6(Ipv6Addr::from(raw)));
        let g = is_global_addr(&Multiaddr { items });
        kani::cover!(private6(raw));
        kani::cover!(!special6(raw));
        if private6(raw) {
            assert!(!g);
        } else if !special6(raw) {
            assert!(g);
        }
    }
}

/// DNS hosts: localhost names are not global, every other name is.  The name is
/// any ASCII string of at most 14 bytes.
#[kani::proof]
#[kani::unwind(16)]
fn model_global_addr_dns_names() {
    let buf: &'static [u8; 14] = Box::leak(Box::new(kani::any()));
    let n: usize = kani::any();
    kani::assume(n <= 14);
    let mut i = 0;
    while i < 14 {
        kani::assume(buf[i] < 0x80);
        i += 1;
    }
    let name: &'static str = unsafe { std::str::from_utf8_unchecked(&buf[..n]) };
    let kind: u8 = kani::any();
    let host = match kind {
        0 => Protocol::Dns(name),
        1 => Protocol::Dns4(name),
        _ => Protocol::Dns6(name),
    };
    let a = Multiaddr { items: [Some(host), Some(Protocol::Tcp(kani::any())), None, None] };
    let g = is_global_addr(&a);
    let local = local_name(&buf[..n]);
    kani::cover!(local);
    kani::cover!(!local && n >= 11);
    assert!(g == !local);
}

// ---- rank_dials, part 1: which group an address is put in ----------------------------------

fn check_categorise(with_dns: bool) {
    let (addr, info) = any_addr(with_dns);
    let (mut relay, mut public, mut private, mut other) =
        (Bucket { got: 0 }, Bucket { got: 0 }, Bucket { got: 0 }, Bucket { got: 0 });
    categorise(PendingDial { addr, id: 0 }, &mut relay, &mut public, &mut private, &mut other);
    kani::cover!(info.group == 0);
    kani::cover!(info.group == 1);
    kani::cover!(info.group == 2);
    // exactly one bucket, the one the statement names
    assert!(private.got == (info.group == 0) as u8);
    assert!(public.got == (info.group == 1) as u8);
    assert!(relay.got == (info.group == 2) as u8);
    assert!(other.got == (info.group == 3) as u8);
}

/// IP hosts: private IP -> first group, public IP -> second, relay -> third
#[kani::proof]
#[kani::unwind(12)]
fn model_categorise_ip_addresses() {
    check_categorise(false);
}

/// DNS hosts too: localhost names -> first group, other names -> last group
#[kani::proof]
#[kani::unwind(24)]
fn model_categorise_dns_addresses() {
    let (addr, info) = any_addr(true);
    kani::assume(matches!(addr.items[0], Some(Protocol::Dns(_) | Protocol::Dns4(_) | Protocol::Dns6(_))));
    let (mut relay, mut public, mut private, mut other) =
        (Bucket { got: 0 }, Bucket { got: 0 }, Bucket { got: 0 }, Bucket { got: 0 });
    categorise(PendingDial { addr, id: 0 }, &mut relay, &mut public, &mut private, &mut other);
    kani::cover!(info.group == 0);
    kani::cover!(info.group == 3);
    assert!(private.got == (info.group == 0) as u8);
    assert!(other.got == (info.group == 3) as u8);
    assert!(public.got == 0 && relay.got == 0);
}

// ---- rank_dials, part 2: one group (group_delays) -------------------------------------------------
// NOT REGISTERED as obligations: parts 2 and 3 time out (unit.json `measured`); kept for a
// future attempt with a cheaper Vec model.

/// transport part of an address of the alphabet, host irrelevant to the checks
fn any_dial(id: u8) -> (PendingDial, Info) {
    let (addr, info) = any_addr(true);
    (PendingDial { addr, id }, info)
}

fn check_permutation<const K: usize>(out: &Vec<(Duration, PendingDial)>) {
    assert!(out.len() == K);
    for id in 0..K {
        let mut count = 0;
        for i in 0..K {
            if out[i].1.id as usize == id {
                count += 1;
            }
        }
        assert!(count == 1);
    }
}

fn check_group<const K: usize>() {
    let mut infos = [Info { group: 0, quic: false, tcp: false }; K];
    let mut dials = Vec::with_capacity(K);
    for id in 0..K {
        let (d, info) = any_dial(id as u8);
        infos[id] = info;
        dials.push(d);
    }
    // the two parameter sets rank_dials uses, with and without the relay offset
    let (t, q, o) = if kani::any() {
        (PRIVATE_TCP_DELAY, PRIVATE_QUIC_DELAY, PRIVATE_OTHER_DELAY)
    } else {
        (PUBLIC_TCP_DELAY, PUBLIC_QUIC_DELAY, PUBLIC_OTHER_DELAY)
    };
    let offset = if kani::any() { Duration::ZERO } else { RELAY_DELAY };
    let out = group_delays(dials, t, q, o, offset);
    check_permutation::<K>(&out);
    for i in 0..K {
        for j in 0..K {
            let (a, b) = (infos[out[i].1.id as usize % K], infos[out[j].1.id as usize % K]);
            // inside a group, QUIC is scheduled no later than TCP
            if a.quic && b.tcp {
                assert!(out[i].0 <= out[j].0);
            }
        }
        assert!(out[i].0 >= offset);
    }
    std::mem::forget(out);
}

#[kani::proof]
#[kani::unwind(12)]
fn model_group_delays_two() {
    check_group::<2>();
}

#[kani::proof]
#[kani::unwind(12)]
fn model_group_delays_three() {
    check_group::<3>();
}

// ---- rank_dials, part 3: putting the groups together ---------------------------------------------------

fn bucket(n: usize, group: u8, next_id: &mut u8, infos: &mut [Info; 3]) -> Vec<PendingDial> {
    let mut v = Vec::with_capacity(n);
    for _ in 0..n {
        let (d, mut info) = any_dial(*next_id);
        info.group = group;
        infos[*next_id as usize] = info;
        *next_id += 1;
        v.push(d);
    }
    v
}

/// `sizes` = number of dials the categorisation put in (private, public, relay, other)
fn check_assemble<const K: usize>(sizes: (usize, usize, usize, usize)) {
    let mut infos = [Info { group: 0, quic: false, tcp: false }; 3];
    let mut next = 0u8;
    let private = bucket(sizes.0, 0, &mut next, &mut infos);
    let public = bucket(sizes.1, 1, &mut next, &mut infos);
    let relay = bucket(sizes.2, 2, &mut next, &mut infos);
    let other = bucket(sizes.3, 3, &mut next, &mut infos);
    let out = assemble(private, public, relay, other);
    check_permutation::<K>(&out);
    for i in 0..K {
        for j in 0..K {
            let (a, b) = (infos[out[i].1.id as usize % K], infos[out[j].1.id as usize % K]);
            // documented group order of the output
            if i < j {
                assert!(a.group <= b.group);
            }
            // no address of the last group is scheduled before one of an earlier group
            if a.group == 3 && b.group < 3 {
                assert!(out[j].0 <= out[i].0);
            }
            // inside a group, QUIC no later than TCP
            if a.group == b.group && a.quic && b.tcp {
                assert!(out[i].0 <= out[j].0);
            }
        }
    }
    std::mem::forget(out);
}

/// every way to spread 2 dials over the four groups
#[kani::proof]
#[kani::unwind(12)]
fn model_assemble_two() {
    let c: u8 = kani::any();
    match c {
        0 => check_assemble::<2>((2, 0, 0, 0)),
        1 => check_assemble::<2>((0, 2, 0, 0)),
        2 => check_assemble::<2>((0, 0, 2, 0)),
        3 => check_assemble::<2>((0, 0, 0, 2)),
        4 => check_assemble::<2>((1, 1, 0, 0)),
        5 => check_assemble::<2>((1, 0, 1, 0)),
        6 => check_assemble::<2>((1, 0, 0, 1)),
        7 => check_assemble::<2>((0, 1, 1, 0)),
        8 => check_assemble::<2>((0, 1, 0, 1)),
        _ => check_assemble::<2>((0, 0, 1, 1)),
    }
}

/// three dials: one per group in every combination, and two + one
#[kani::proof]
#[kani::unwind(12)]
fn model_assemble_three() {
    let c: u8 = kani::any();
    match c {
        0 => check_assemble::<3>((1, 1, 1, 0)),
        1 => check_assemble::<3>((1, 1, 0, 1)),
        2 => check_assemble::<3>((1, 0, 1, 1)),
        3 => check_assemble::<3>((0, 1, 1, 1)),
        4 => check_assemble::<3>((2, 0, 0, 1)),
        5 => check_assemble::<3>((0, 2, 1, 0)),
        _ => check_assemble::<3>((0, 2, 0, 1)),
    }
}

/// Vacuity canary: must FAIL (claims every IP address lands in the private group).
#[kani::proof]
#[kani::unwind(12)]
fn canary_model_every_ip_is_private() {
    let (addr, _) = any_addr(false);
    let (mut relay, mut public, mut private, mut other) =
        (Bucket { got: 0 }, Bucket { got: 0 }, Bucket { got: 0 }, Bucket { got: 0 });
    categorise(PendingDial { addr, id: 0 }, &mut relay, &mut public, &mut private, &mut other);
    assert!(private.got == 1);
}
