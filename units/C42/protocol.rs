// C42 — record lifetimes on the wire.
include!(concat!(env!("LIBP2P_VERIF"), "/shims/clock.rs"));

const HORIZON: u64 = 1 << 40; // ~35 000 years of clock range; keeps Instant arithmetic in range

fn record_with(expires: Option<Instant>) -> Record {
    Record {
        key: record::Key::from(Vec::new()),
        value: Vec::new(),
        publisher: None,
        expires,
    }
}

/// A record with an expiry is never sent as "does not expire" (ttl 0), for every
/// remaining lifetime including sub-second ones and already-expired records; the
/// advertised ttl never exceeds the remaining lifetime rounded up.
#[kani::proof]
#[kani::unwind(4)]
#[kani::stub(std::time::Instant::now, clock::now)]
fn contract_record_to_proto_ttl() {
    let (ns, nn) = clock::set_any(HORIZON);
    let (es, en, exp) = clock::any_instant(HORIZON);
    let p = record_to_proto(record_with(Some(exp)));
    assert!(p.ttl >= 1);
    // never advertises more than ceil(remaining), and at least 1
    let remaining = Duration::new(es, en).checked_sub(Duration::new(ns, nn)).unwrap_or(Duration::ZERO);
    let ceil_secs: u64 = remaining.as_secs() + (remaining.subsec_nanos() > 0) as u64;
    assert!(p.ttl as u64 <= if ceil_secs == 0 { 1 } else { ceil_secs });
    std::mem::forget(p);
}

/// No expiry <=> ttl 0.
#[kani::proof]
#[kani::unwind(4)]
#[kani::stub(std::time::Instant::now, clock::now)]
fn contract_record_to_proto_no_expiry() {
    clock::set_any(HORIZON);
    let p = record_to_proto(record_with(None));
    assert!(p.ttl == 0);
    std::mem::forget(p);
}

/// record_from_proto: ttl > 0 => expires = now + ttl seconds exactly; ttl = 0 => no expiry.
#[kani::proof]
#[kani::unwind(4)]
#[kani::stub(std::time::Instant::now, clock::now)]
fn contract_record_from_proto_ttl() {
    let (ns, nn) = clock::set_any(HORIZON);
    let ttl: u32 = kani::any();
    let p = proto::Record {
        key: Vec::new(),
        value: Vec::new(),
        publisher: Vec::new(),
        ttl,
        time_received: String::new(),
    };
    match record_from_proto(p) {
        Ok(r) => {
            if ttl == 0 {
                assert!(r.expires.is_none());
            } else {
                assert!(r.expires == Some(clock::at(ns + ttl as u64, nn)));
            }
            assert!(r.publisher.is_none());
            std::mem::forget(r);
        }
        Err(e) => {
            std::mem::forget(e);
            assert!(false);
        }
    }
}

/// Vacuity canary: must FAIL.
#[kani::proof]
#[kani::unwind(4)]
#[kani::stub(std::time::Instant::now, clock::now)]
fn canary_ttl_always_one() {
    clock::set_any(HORIZON);
    let (_, _, exp) = clock::any_instant(HORIZON);
    let p = record_to_proto(record_with(Some(exp)));
    assert!(p.ttl == 1);
    std::mem::forget(p);
}
