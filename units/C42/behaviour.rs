// C42 — expiry merge of a received record (fragment of Behaviour::record_received)
include!(concat!(env!("LIBP2P_VERIF"), "/shims/clock.rs"));

pub(crate) struct MergeEnv {
    pub(crate) record_ttl: Option<Duration>,
}

include!(concat!(env!("LIBP2P_VERIF_GEN"), "/C42/merge_fragment.rs"));

const HORIZON: u64 = 1 << 40;

fn rec(expires: Option<Instant>) -> Record {
    Record {
        key: record::Key::from(Vec::new()),
        value: Vec::new(),
        publisher: None,
        expires,
    }
}

/// From the statement: the stored expiry is never later than the peer's expiry,
/// never later than now + local TTL, and is None only if neither is set.
#[kani::proof]
#[kani::unwind(4)]
fn contract_expiry_merge() {
    let (_, _, now) = clock::any_instant(HORIZON);
    let peer: Option<Instant> = if kani::any() { Some(clock::any_instant(HORIZON).2) } else { None };
    let ttl_secs: u64 = kani::any();
    kani::assume(ttl_secs <= HORIZON);
    let local_ttl: Option<Duration> = if kani::any() { Some(Duration::from_secs(ttl_secs)) } else { None };
    let beyond: u32 = kani::any();
    let env = MergeEnv { record_ttl: local_ttl };
    let out = env.merge(now, beyond, rec(peer));
    match out.expires {
        None => assert!(peer.is_none() && local_ttl.is_none()),
        Some(e) => {
            if let Some(p) = peer {
                assert!(e <= p);
            }
            if let Some(t) = local_ttl {
                assert!(e <= now + t);
            }
            assert!(peer.is_some() || local_ttl.is_some());
        }
    }
    std::mem::forget(out);
}

/// exp_decrease never lengthens: exp_decrease(ttl, n) <= ttl, and equals ttl (in
/// whole seconds) when n = 0.
#[kani::proof]
fn contract_exp_decrease() {
    let secs: u64 = kani::any();
    let nanos: u32 = kani::any();
    kani::assume(nanos < 1_000_000_000);
    let ttl = Duration::new(secs, nanos);
    let n: u32 = kani::any();
    let r = exp_decrease(ttl, n);
    assert!(r <= ttl);
    if n == 0 {
        assert!(r == Duration::from_secs(secs));
    }
    if n < 64 {
        assert!(r == Duration::from_secs(secs >> n));
    } else {
        assert!(r == Duration::ZERO);
    }
}

/// Vacuity canary: must FAIL.
#[kani::proof]
fn canary_merge_always_none() {
    let (_, _, now) = clock::any_instant(HORIZON);
    let env = MergeEnv { record_ttl: Some(Duration::from_secs(5)) };
    let out = env.merge(now, 0, rec(None));
    assert!(out.expires.is_none());
    std::mem::forget(out);
}
