// C12 — the `FromSwarm::DialFailure { error: DialError::Transport(errors), .. }` arm of
// PeerAddresses::on_swarm_event, extracted verbatim on every run (K-fragment).
// Contract, from the statement ("report 'changed' exactly when their contents
// change"): the arm calls `remove` once for every failed address and returns
// `true` exactly when at least one of those calls removed something.
// `remove` is a stand-in that answers each call with an arbitrary boolean (its own
// contract — "returns true iff the address was stored and is now gone" — is the
// subject of peer.rs); peer ids and addresses are opaque values, the arm only
// passes them on.

pub(crate) struct ArmEnv {
    /// what the k-th call of `remove` answers
    script: [bool; 3],
    calls: usize,
    any_removed: bool,
}

impl ArmEnv {
    fn remove(&mut self, _peer: &u8, _address: &u32) -> bool {
        let r = self.script[self.calls];
        self.calls += 1;
        self.any_removed |= r;
        r
    }
}

include!(concat!(env!("LIBP2P_VERIF_GEN"), "/C12/dial_failure_arm.rs"));

fn check_arm(n: usize) {
    let errs: [(u32, u8); 3] = kani::any();
    let mut env = ArmEnv { script: kani::any(), calls: 0, any_removed: false };
    let peer: u8 = kani::any();
    let changed = env.dial_failure_arm(&peer, &errs[..n]);
    kani::cover!(env.any_removed);
    kani::cover!(!env.any_removed);
    // every failed address is forgotten
    assert!(env.calls == n);
    // `changed` exactly when the contents changed
    assert!(changed == env.any_removed);
}

#[kani::proof]
#[kani::unwind(5)]
fn dial_failure_arm_reports_change_exactly() {
    let n: u8 = kani::any();
    match n {
        0 => check_arm(0),
        1 => check_arm(1),
        2 => check_arm(2),
        _ => check_arm(3),
    }
}

/// Vacuity canary: must FAIL (claims the arm never calls remove).
#[kani::proof]
#[kani::unwind(5)]
fn canary_arm_removes_nothing() {
    let errs: [(u32, u8); 3] = kani::any();
    let mut env = ArmEnv { script: kani::any(), calls: 0, any_removed: false };
    let _ = env.dial_failure_arm(&1, &errs[..2]);
    assert!(env.calls == 0);
}
