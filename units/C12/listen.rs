// C12 — ListenAddresses (HashSet -> dependency shim): set insert/remove, `changed`
// exactly when membership changes.
use libp2p_core::{multiaddr::Protocol, transport::ListenerId};
use std::net::Ipv4Addr;

fn ma(x: u32) -> Multiaddr {
    Multiaddr::empty().with(Protocol::Ip4(Ipv4Addr::from(x)))
}

#[kani::proof]
#[kani::unwind(12)]
fn listen_new_expired() {
    let mut l = ListenAddresses::default();
    let x: u32 = kani::any();
    let y: u32 = kani::any();
    if kani::any() {
        l.addresses.insert(ma(x));
    }
    if kani::any() {
        l.addresses.insert(ma(y));
    }
    let a: u32 = kani::any();
    let other: u32 = kani::any();
    kani::assume(other != a);
    let addr = ma(a);
    let had = l.addresses.contains(&addr);
    let other_in = l.addresses.contains(&ma(other));
    let n0 = l.addresses.len();
    let id = ListenerId::next();
    if kani::any() {
        let changed = l.on_swarm_event(&FromSwarm::NewListenAddr(NewListenAddr { listener_id: id, addr: &addr }));
        assert!(changed == !had);
        assert!(l.addresses.contains(&addr));
        assert!(l.addresses.len() == n0 + (!had) as usize);
    } else {
        let changed = l.on_swarm_event(&FromSwarm::ExpiredListenAddr(ExpiredListenAddr { listener_id: id, addr: &addr }));
        assert!(changed == had);
        assert!(!l.addresses.contains(&addr));
        assert!(l.addresses.len() == n0 - had as usize);
    }
    assert!(l.addresses.contains(&ma(other)) == other_in);
}
