// C12 — PeerAddresses (hashlink::LruCache -> dependency shim): `changed` exactly
// when the stored contents change; /p2p suffix normalisation; per-peer bound.
use libp2p_core::{multiaddr::Protocol, transport::TransportError};
use std::net::Ipv4Addr;

fn ma(x: u32) -> Multiaddr {
    Multiaddr::empty().with(Protocol::Ip4(Ipv4Addr::from(x)))
}

fn peer(b: u8) -> PeerId {
    PeerId::from_multihash(libp2p_core::multihash::Multihash::<64>::wrap(0, &[b]).unwrap()).unwrap()
}

fn stored(c: &PeerAddresses, p: &PeerId, a: &Multiaddr) -> bool {
    let full = a.clone().with_p2p(*p).unwrap();
    c.0.peek(p).map_or(false, |s| s.contains_key(&full))
}

/// add / remove: return value == "contents changed"; the address is stored with
/// the peer's /p2p suffix
#[kani::proof]
#[kani::unwind(12)]
fn peer_add_remove() {
    let mut c = PeerAddresses::default();
    let p = peer(1);
    let x: u32 = kani::any();
    if kani::any() {
        c.add(p, ma(x));
    }
    let a: u32 = kani::any();
    let addr = ma(a);
    let had = stored(&c, &p, &addr);
    if kani::any() {
        let changed = c.add(p, addr.clone());
        assert!(changed == !had);
        assert!(stored(&c, &p, &addr));
    } else {
        let changed = c.remove(&p, &addr);
        assert!(changed == had);
        assert!(!stored(&c, &p, &addr));
    }
}

/// on_swarm_event(DialFailure::Transport): the failed addresses are forgotten and
/// `changed` is reported exactly when something was actually removed.
#[kani::proof]
#[kani::unwind(12)]
fn peer_dial_failure_reports_change_exactly() {
    let mut c = PeerAddresses::default();
    let p = peer(1);
    let x: u32 = kani::any();
    if kani::any() {
        c.add(p, ma(x));
    }
    let a: u32 = kani::any();
    let addr = ma(a);
    let had = stored(&c, &p, &addr);
    let err = DialError::Transport(vec![(addr.clone(), TransportError::MultiaddrNotSupported(addr.clone()))]);
    let changed = c.on_swarm_event(&FromSwarm::DialFailure(DialFailure {
        peer_id: Some(p),
        error: &err,
        connection_id: crate::ConnectionId::new_unchecked(1),
    }));
    assert!(!stored(&c, &p, &addr));
    assert!(changed == had);
    std::mem::forget(err);
}
