// C12 — ExternalAddresses::on_swarm_event: the text of `on_swarm_event` and `push_front`,
// extracted verbatim on every run (tracing macros dropped), compiled against stand-ins
// with the same names for the types it mentions (`Multiaddr` = a Copy token with equality;
// `FromSwarm` / `ExternalAddrConfirmed` / `ExternalAddrExpired` = same-shaped local types).
// Measured reason: on the real `Vec<Multiaddr>` (Arc-backed, byte-wise equality) the same
// contract timed out at 900 s already for lists of 2 addresses.  The function only clones,
// compares and moves addresses, which is exactly what the token supports.
// MAX_LOCAL_EXTERNAL_ADDRS is shadowed by 3 (the text refers to it by name; ASSUMED: the
// logic is parametric in the constant).
//
// Contract from the statement (the helper equals the fold of the events it is fed, within
// its capacity, MOST RECENT FIRST, and reports `changed` exactly when its contents change):
//   confirmed(a), a absent : list' = [a] ++ list, truncated to the capacity (oldest dropped); true
//   confirmed(a), a present: list' = [a] ++ (list without a)  — every other address keeps its
//                            relative order —; false (the SET did not change)
//   expired(a)             : list' = list without a; true iff a was present
//   any other event        : unchanged; false
#[derive(Clone, Copy, PartialEq, Eq, Debug)]
pub(crate) struct Multiaddr(pub(crate) u8);
impl std::fmt::Display for Multiaddr {
    fn fmt(&self, _f: &mut std::fmt::Formatter<'_>) -> std::fmt::Result {
        Ok(())
    }
}
pub(crate) struct ExternalAddrConfirmed<'a> {
    pub(crate) addr: &'a Multiaddr,
}
pub(crate) struct ExternalAddrExpired<'a> {
    pub(crate) addr: &'a Multiaddr,
}
pub(crate) enum FromSwarm<'a> {
    ExternalAddrConfirmed(ExternalAddrConfirmed<'a>),
    ExternalAddrExpired(ExternalAddrExpired<'a>),
    Other,
}
const MAX_LOCAL_EXTERNAL_ADDRS: usize = 3;

pub(crate) struct ExternalAddresses {
    addresses: Vec<Multiaddr>,
}

// impl ExternalAddresses { pub fn on_swarm_event(&mut self, event: &FromSwarm) -> bool; fn push_front(&mut self, addr: &Multiaddr) }
include!(concat!(env!("LIBP2P_VERIF_GEN"), "/C12/external_fns.rs"));

/// the abstract fold step on a small array model (len, cells)
fn spec_step(n: usize, xs: [u8; 3], confirm: bool, a: u8) -> (usize, [u8; 4], bool) {
    let mut pos = 3;
    let mut i = 0;
    while i < n {
        if xs[i] == a && pos == 3 {
            pos = i;
        }
        i += 1;
    }
    let present = pos < 3;
    let mut out = [0u8; 4];
    let mut m = 0;
    if confirm {
        out[0] = a;
        m = 1;
    }
    let mut k = 0;
    while k < n {
        if !(present && k == pos) {
            out[m] = xs[k];
            m += 1;
        }
        k += 1;
    }
    if m > MAX_LOCAL_EXTERNAL_ADDRS {
        m = MAX_LOCAL_EXTERNAL_ADDRS; // the oldest (last) is dropped
    }
    let changed = if confirm { !present } else { present };
    (m, out, changed)
}

fn case(n: usize) {
    let xs: [u8; 3] = kani::any();
    kani::assume(xs[0] != xs[1] && xs[0] != xs[2] && xs[1] != xs[2]);
    let mut v = Vec::with_capacity(8);
    let mut i = 0;
    while i < n {
        v.push(Multiaddr(xs[i]));
        i += 1;
    }
    let mut e = ExternalAddresses { addresses: v };
    let a: u8 = kani::any();
    let addr = Multiaddr(a);
    let confirm: bool = kani::any();
    let changed = if confirm {
        e.on_swarm_event(&FromSwarm::ExternalAddrConfirmed(ExternalAddrConfirmed { addr: &addr }))
    } else {
        e.on_swarm_event(&FromSwarm::ExternalAddrExpired(ExternalAddrExpired { addr: &addr }))
    };
    let (m, want, want_changed) = spec_step(n, xs, confirm, a);
    assert!(changed == want_changed);
    assert!(e.addresses.len() == m);
    let mut j = 0;
    while j < m {
        assert!(e.addresses[j].0 == want[j]);
        j += 1;
    }
    std::mem::forget(e);
}

#[kani::proof]
#[kani::unwind(6)]
fn external_addresses_equal_the_fold_most_recent_first() {
    // every list length up to the (scaled) capacity, contents and event symbolic
    case(0);
    case(1);
    case(2);
    case(3);
}

#[kani::proof]
#[kani::unwind(6)]
fn external_addresses_ignore_other_events() {
    let xs: [u8; 2] = kani::any();
    let mut e = ExternalAddresses { addresses: vec![Multiaddr(xs[0]), Multiaddr(xs[1])] };
    assert!(!e.on_swarm_event(&FromSwarm::Other));
    assert!(e.addresses.len() == 2 && e.addresses[0].0 == xs[0] && e.addresses[1].0 == xs[1]);
    std::mem::forget(e);
}

/// Vacuity canary: must FAIL.
#[kani::proof]
#[kani::unwind(6)]
fn canary_external_model_never_changes() {
    let mut e = ExternalAddresses { addresses: Vec::with_capacity(4) };
    let addr = Multiaddr(kani::any());
    assert!(!e.on_swarm_event(&FromSwarm::ExternalAddrConfirmed(ExternalAddrConfirmed { addr: &addr })));
    std::mem::forget(e);
}
