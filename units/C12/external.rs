// C12 — ExternalAddresses (Vec-backed, real Multiaddr): equals the fold of the
// confirmed/expired events, most recent first, capacity 20, and reports
// `changed` exactly when the SET of addresses changes.
include!(concat!(env!("LIBP2P_VERIF"), "/shims/tracing_off.rs"));
use libp2p_core::multiaddr::Protocol;
use std::net::Ipv4Addr;

fn ma(x: u32) -> Multiaddr {
    Multiaddr::empty().with(Protocol::Ip4(Ipv4Addr::from(x)))
}

fn list<const N: usize>(xs: &[u32; N]) -> ExternalAddresses {
    let mut v = Vec::with_capacity(24);
    for x in xs.iter() {
        v.push(ma(*x));
    }
    ExternalAddresses { addresses: v }
}

fn distinct<const N: usize>(xs: &[u32; N]) -> bool {
    let mut i = 0;
    while i < N {
        let mut j = i + 1;
        while j < N {
            if xs[i] == xs[j] {
                return false;
            }
            j += 1;
        }
        i += 1;
    }
    true
}

fn check_confirm_expire<const N: usize>() {
    let xs: [u32; N] = kani::any();
    kani::assume(distinct(&xs));
    let mut e = list(&xs);
    let a: u32 = kani::any();
    let addr = ma(a);
    let pos = xs.iter().position(|x| *x == a);
    if kani::any() {
        let changed = e.on_swarm_event(&FromSwarm::ExternalAddrConfirmed(ExternalAddrConfirmed { addr: &addr }));
        // most recent first
        assert!(e.addresses[0] == addr);
        match pos {
            Some(p) => {
                // refreshed: same set, moved to the front, the others keep their order
                assert!(!changed);
                assert!(e.addresses.len() == N);
                let mut k = 0;
                let mut out = 1;
                while k < N {
                    if k != p {
                        assert!(e.addresses[out] == ma(xs[k]));
                        out += 1;
                    }
                    k += 1;
                }
            }
            None => {
                assert!(changed);
                assert!(e.addresses.len() == N + 1);
                let mut k = 0;
                while k < N {
                    assert!(e.addresses[k + 1] == ma(xs[k]));
                    k += 1;
                }
            }
        }
    } else {
        let changed = e.on_swarm_event(&FromSwarm::ExternalAddrExpired(ExternalAddrExpired { addr: &addr }));
        assert!(changed == pos.is_some());
        assert!(e.addresses.len() == N - pos.is_some() as usize);
        assert!(!e.addresses.iter().any(|x| *x == addr));
        let mut k = 0;
        let mut out = 0;
        while k < N {
            if Some(k) != pos {
                assert!(e.addresses[out] == ma(xs[k]));
                out += 1;
            }
            k += 1;
        }
    }
}

tracing_off! {
#[kani::proof]
#[kani::unwind(12)]
fn external_confirm_expire_n0() {
    check_confirm_expire::<0>();
}
}

tracing_off! {
#[kani::proof]
#[kani::unwind(12)]
fn external_confirm_expire_n1() {
    check_confirm_expire::<1>();
}
}

tracing_off! {
#[kani::proof]
#[kani::unwind(12)]
fn external_confirm_expire_n2() {
    check_confirm_expire::<2>();
}
}

tracing_off! {
#[kani::proof]
#[kani::unwind(12)]
fn external_confirm_expire_n3() {
    check_confirm_expire::<3>();
}
}

/// documented capacity: a 21st confirmed address evicts the oldest (last) one
tracing_off! {
#[kani::proof]
#[kani::unwind(26)]
fn external_capacity_evicts_oldest() {
    let mut xs = [0u32; 20];
    let mut i = 0;
    while i < 20 {
        xs[i] = 0x0a00_0000 + i as u32;
        i += 1;
    }
    let mut e = list(&xs);
    let a: u32 = kani::any();
    kani::assume(a < 0x0a00_0000 || a >= 0x0a00_0000 + 20);
    let addr = ma(a);
    let changed = e.on_swarm_event(&FromSwarm::ExternalAddrConfirmed(ExternalAddrConfirmed { addr: &addr }));
    assert!(changed);
    assert!(e.addresses.len() == 20);
    assert!(e.addresses[0] == addr);
    assert!(e.addresses[19] == ma(xs[18]));
    assert!(!e.addresses.iter().any(|x| *x == ma(xs[19])));
}
}

/// Vacuity canary: must FAIL.
tracing_off! {
#[kani::proof]
#[kani::unwind(12)]
fn canary_external_never_changes() {
    let mut e = list(&[1u32]);
    let addr = ma(kani::any());
    assert!(!e.on_swarm_event(&FromSwarm::ExternalAddrConfirmed(ExternalAddrConfirmed { addr: &addr })));
}
}
