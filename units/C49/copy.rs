// C49 — relayed circuits forward faithfully within their limits.
//
// Code under contract: the real `forward_data` (called directly with mock
// endpoints) and the real `CopyFuture::poll` (two mock endpoints behind the real
// futures `BufReader`, capacity 2).  The mock endpoint answers every poll_read /
// poll_write / poll_flush / poll_close NONDETERMINISTICALLY (Pending, error, short
// read, short write, zero-length write), so one run of a harness covers every
// chunking and every readiness schedule within the bound.
//
// Contract from the statement:
//   * what an endpoint has received is, at all times, an exact prefix (same
//     bytes, same order, nothing duplicated or dropped) of what the other side
//     handed out;
//   * the future does not keep running (Pending) nor finish successfully once more
//     than max_circuit_bytes have been forwarded: the poll that crosses the limit
//     ends with an error, and the total forwarded never exceeds
//     max_circuit_bytes + one read buffer per direction;
//   * when the maximum duration has passed (timer fires) and no progress is
//     possible, the future ends with an error.

const TX: usize = 2; // bytes an endpoint has to send (bound)
const RX: usize = 8;

pub(crate) struct Ep {
    tx: [u8; TX],
    tx_len: usize,
    tx_pos: usize,     // handed out so far (to a BufReader or directly)
    fill_to: usize,    // AsyncBufRead view: bytes currently exposed by poll_fill_buf
    rx: [u8; RX],
    rx_len: usize,
    writes: u32,
    flushed: bool,
    closed: bool,
}

impl Ep {
    fn any() -> Ep {
        let e = Ep {
            tx: kani::any(),
            tx_len: kani::any(),
            tx_pos: 0,
            fill_to: 0,
            rx: [0; RX],
            rx_len: 0,
            writes: 0,
            flushed: false,
            closed: false,
        };
        kani::assume(e.tx_len <= TX);
        e
    }
}

impl AsyncRead for Ep {
    fn poll_read(mut self: Pin<&mut Self>, _cx: &mut Context<'_>, buf: &mut [u8]) -> Poll<io::Result<usize>> {
        let c: u8 = kani::any();
        if c == 0 {
            return Poll::Pending;
        }
        if c == 1 {
            return Poll::Ready(Err(io::ErrorKind::ConnectionReset.into()));
        }
        let avail = self.tx_len - self.tx_pos;
        let n: usize = kani::any();
        kani::assume(n <= avail && n <= buf.len());
        // a read of 0 bytes means EOF: only when nothing is left
        kani::assume(n > 0 || avail == 0 || buf.is_empty());
        let mut i = 0;
        while i < TX {
            if i < n {
                buf[i] = self.tx[self.tx_pos + i];
            }
            i += 1;
        }
        self.tx_pos += n;
        Poll::Ready(Ok(n))
    }
}

impl AsyncBufRead for Ep {
    fn poll_fill_buf(self: Pin<&mut Self>, _cx: &mut Context<'_>) -> Poll<io::Result<&[u8]>> {
        let this = self.get_mut();
        let c: u8 = kani::any();
        if c == 0 {
            return Poll::Pending;
        }
        if c == 1 {
            return Poll::Ready(Err(io::ErrorKind::ConnectionReset.into()));
        }
        if this.fill_to == this.tx_pos {
            // buffer empty: take a nondeterministic, non-empty chunk unless at EOF
            let avail = this.tx_len - this.tx_pos;
            let n: usize = kani::any();
            kani::assume(n <= avail && (n > 0 || avail == 0));
            this.fill_to = this.tx_pos + n;
        }
        Poll::Ready(Ok(&this.tx[this.tx_pos..this.fill_to]))
    }
    fn consume(self: Pin<&mut Self>, amt: usize) {
        let this = self.get_mut();
        assert!(this.tx_pos + amt <= this.fill_to, "consumed more than was exposed");
        this.tx_pos += amt;
    }
}

impl AsyncWrite for Ep {
    fn poll_write(mut self: Pin<&mut Self>, _cx: &mut Context<'_>, buf: &[u8]) -> Poll<io::Result<usize>> {
        let c: u8 = kani::any();
        if c == 0 {
            return Poll::Pending;
        }
        if c == 1 {
            return Poll::Ready(Err(io::ErrorKind::BrokenPipe.into()));
        }
        let n: usize = kani::any();
        kani::assume(n <= buf.len() && self.rx_len + n <= RX);
        let mut i = 0;
        while i < TX {
            if i < n {
                let at = self.rx_len + i;
                self.rx[at] = buf[i];
            }
            i += 1;
        }
        self.rx_len += n;
        self.writes += 1;
        Poll::Ready(Ok(n))
    }
    fn poll_flush(mut self: Pin<&mut Self>, _cx: &mut Context<'_>) -> Poll<io::Result<()>> {
        let c: u8 = kani::any();
        if c == 0 {
            return Poll::Pending;
        }
        if c == 1 {
            return Poll::Ready(Err(io::ErrorKind::BrokenPipe.into()));
        }
        self.flushed = true;
        Poll::Ready(Ok(()))
    }
    fn poll_close(mut self: Pin<&mut Self>, _cx: &mut Context<'_>) -> Poll<io::Result<()>> {
        let c: u8 = kani::any();
        if c == 0 {
            return Poll::Pending;
        }
        if c == 1 {
            return Poll::Ready(Err(io::ErrorKind::BrokenPipe.into()));
        }
        self.closed = true;
        Poll::Ready(Ok(()))
    }
}

fn with_cx<R>(f: impl FnOnce(&mut Context<'_>) -> R) -> R {
    let w = futures::task::noop_waker();
    let mut cx = Context::from_waker(&w);
    f(&mut cx)
}

/// `to.rx` is exactly the first `to.rx_len` bytes `from` has to send
fn is_prefix(from: &Ep, to: &Ep) -> bool {
    if to.rx_len > from.tx_len {
        return false;
    }
    let mut ok = true;
    let mut i = 0;
    while i < TX {
        if i < to.rx_len {
            ok &= to.rx[i] == from.tx[i];
        }
        i += 1;
    }
    ok
}

/// forward_data, one call from any source position: Ok(n>0) => exactly the first n
/// bytes of the source's buffer went to ONE poll_write and were consumed;
/// Ok(0) => source at EOF, destination flushed and closed; otherwise nothing moved
#[kani::proof]
#[kani::unwind(5)]
fn forward_data_moves_exactly_what_it_reports() {
    let mut src = Ep::any();
    let mut dst = Ep::any();
    // any point of a transfer: k bytes already forwarded faithfully
    let k: usize = kani::any();
    kani::assume(k <= src.tx_len);
    src.tx_pos = k;
    src.fill_to = k;
    dst.rx_len = k;
    let mut i = 0;
    while i < TX {
        if i < k {
            dst.rx[i] = src.tx[i];
        }
        i += 1;
    }
    let r = with_cx(|cx| forward_data(&mut src, &mut dst, cx));
    assert!(is_prefix(&src, &dst), "destination holds something else than a prefix of the source's bytes");
    assert!(dst.rx_len == src.tx_pos, "bytes were consumed from the source without reaching the destination, or twice");
    match r {
        Poll::Ready(Ok(0)) => {
            assert!(src.tx_pos == src.tx_len, "reported done before the source's EOF");
            assert!(dst.flushed && dst.closed, "reported done without flushing and closing the destination");
            assert!(dst.rx_len == k);
        }
        Poll::Ready(Ok(n)) => {
            assert!(n as usize == dst.rx_len - k && n > 0);
            assert!(dst.writes == 1);
        }
        Poll::Ready(Err(_)) | Poll::Pending => {
            assert!(dst.rx_len == k, "bytes moved although no progress was reported");
        }
    }
    kani::cover!(matches!(r, Poll::Ready(Ok(2))));
    kani::cover!(matches!(r, Poll::Pending));
    kani::cover!(matches!(r, Poll::Ready(Ok(0))));
    std::mem::forget(r);
}

static mut TIMER_FIRES: bool = false;
fn mock_delay_poll(_d: Pin<&mut Delay>, _cx: &mut Context<'_>) -> Poll<()> {
    unsafe { if TIMER_FIRES { Poll::Ready(()) } else { Poll::Pending } }
}

fn circuit(max_bytes: u64, already: u64) -> CopyFuture<Ep, Ep> {
    CopyFuture {
        src: BufReader::with_capacity(2, Ep::any()),
        dst: BufReader::with_capacity(2, Ep::any()),
        // inert timer value; its poll is the stub above (Delay::new spawns a helper thread)
        max_circuit_duration: unsafe { std::mem::zeroed() },
        max_circuit_bytes: max_bytes,
        bytes_sent: already,
    }
}

/// CopyFuture::poll, one poll from the start of a circuit, every chunking/readiness
/// schedule of two endpoints with <= 2 bytes each behind 2-byte read buffers
#[kani::proof]
#[kani::unwind(7)]
#[kani::stub(<futures_timer::Delay as std::future::Future>::poll, mock_delay_poll)]
fn copy_future_forwards_prefixes_and_enforces_byte_limit() {
    let max: u64 = kani::any();
    kani::assume(max >= 1 && max <= 3);
    unsafe { TIMER_FIRES = kani::any() };
    let mut f = circuit(max, 0);
    let mut polls = 0;
    let mut last = Poll::Pending;
    while polls < 1 {
        last = with_cx(|cx| Pin::new(&mut f).poll(cx));
        let (a, b) = (f.src.get_ref(), f.dst.get_ref());
        // faithful forwarding, both directions, at every observation point
        assert!(is_prefix(a, b), "dst received something that is not a prefix of what src sent");
        assert!(is_prefix(b, a), "src received something that is not a prefix of what dst sent");
        assert!(b.rx_len <= a.tx_pos && a.rx_len <= b.tx_pos);
        assert!(f.bytes_sent == (a.rx_len + b.rx_len) as u64, "bytes_sent is not the number of bytes forwarded");
        // byte limit: never more than max + one read buffer (2) per direction
        assert!(f.bytes_sent <= max + 2 + 2, "forwarded more than max_circuit_bytes plus one buffer per direction");
        match &last {
            Poll::Pending => {
                assert!(f.bytes_sent <= max, "circuit keeps running although more than max_circuit_bytes were forwarded");
                assert!(unsafe { !TIMER_FIRES }, "circuit keeps running although the maximum duration has passed");
            }
            Poll::Ready(Ok(())) => {
                assert!(f.bytes_sent <= max, "circuit finished successfully although more than max_circuit_bytes were forwarded");
                // both directions done: everything delivered, both sides closed
                assert!(b.rx_len == a.tx_len && a.rx_len == b.tx_len);
                assert!(a.closed && b.closed);
            }
            Poll::Ready(Err(_)) => {}
        }
        if last.is_ready() {
            break;
        }
        polls += 1;
    }
    kani::cover!(matches!(last, Poll::Ready(Ok(()))) && f.bytes_sent == 3);
    kani::cover!(matches!(last, Poll::Ready(Err(_))) && f.bytes_sent > max);
    std::mem::forget(last);
    std::mem::forget(f);
}

/// Vacuity canary: must FAIL (circuits do complete).
#[kani::proof]
#[kani::unwind(7)]
#[kani::stub(<futures_timer::Delay as std::future::Future>::poll, mock_delay_poll)]
fn canary_copy_future_never_completes() {
    unsafe { TIMER_FIRES = false };
    let mut f = circuit(3, 0);
    let r = with_cx(|cx| Pin::new(&mut f).poll(cx));
    assert!(!matches!(r, Poll::Ready(Ok(()))));
    std::mem::forget(r);
    std::mem::forget(f);
}

/// Vacuity canary for the forward_data contract: must FAIL (data does move).
#[kani::proof]
#[kani::unwind(5)]
fn canary_forward_data_never_progresses() {
    let mut src = Ep::any();
    let mut dst = Ep::any();
    let r = with_cx(|cx| forward_data(&mut src, &mut dst, cx));
    assert!(!matches!(r, Poll::Ready(Ok(n)) if n > 0));
    std::mem::forget(r);
}
