// C05 — the `check_peer_id` closure of Pool::poll, extracted verbatim on every run.
// Contract (from the statement): a pending connection is accepted (Ok) iff the
// peer id obtained from the handshake equals the expected one (when one was
// given) AND is not the local peer id; otherwise the matching error event is
// produced, carrying the same connection id.

pub(crate) struct CheckEnv {
    pub(crate) local_id: PeerId,
}

include!(concat!(env!("LIBP2P_VERIF_GEN"), "/C05/check_peer_id_fragment.rs"));

fn any_peer() -> PeerId {
    let d: [u8; 4] = kani::any();
    PeerId::from_multihash(libp2p_core::multihash::Multihash::<64>::wrap(0, &d).unwrap()).unwrap()
}

fn any_endpoint() -> (bool, ConnectedPoint) {
    if kani::any() {
        (true, ConnectedPoint::Dialer {
            address: Multiaddr::empty(),
            role_override: Endpoint::Dialer,
            port_use: PortUse::Reuse,
        })
    } else {
        (false, ConnectedPoint::Listener {
            local_addr: Multiaddr::empty(),
            send_back_addr: Multiaddr::empty(),
        })
    }
}

#[kani::proof]
#[kani::unwind(70)]
fn contract_check_peer_id() {
    let local = any_peer();
    let obtained = any_peer();
    let expected: Option<PeerId> = if kani::any() { Some(any_peer()) } else { None };
    let (is_dialer, endpoint) = any_endpoint();
    // inbound connections never carry an expected peer id (Pool::add_incoming)
    kani::assume(is_dialer || expected.is_none());
    let id = ConnectionId::new_unchecked(kani::any());
    let env = CheckEnv { local_id: local };
    let r = env.check_peer_id(expected, obtained, endpoint, id);
    let expectation_ok = match expected {
        None => true,
        Some(e) => e == obtained,
    };
    let accept = expectation_ok && obtained != local;
    kani::cover!(accept);
    kani::cover!(!expectation_ok);
    kani::cover!(expectation_ok && obtained == local);
    match &r {
        Ok(()) => assert!(accept),
        Err(ev) => {
            assert!(!accept);
            match ev {
                PoolEvent::PendingOutboundConnectionError { id: eid, error, peer } => {
                    assert!(is_dialer);
                    assert!(*eid == id);
                    match error {
                        PendingOutboundConnectionError::WrongPeerId { obtained: o, .. } => {
                            assert!(!expectation_ok);
                            assert!(*o == obtained);
                            assert!(*peer == expected);
                        }
                        PendingOutboundConnectionError::LocalPeerId { .. } => {
                            assert!(expectation_ok && obtained == local);
                            assert!(*peer == Some(obtained));
                        }
                        _ => assert!(false),
                    }
                }
                PoolEvent::PendingInboundConnectionError { id: eid, error, .. } => {
                    assert!(!is_dialer);
                    assert!(*eid == id);
                    assert!(matches!(error, PendingInboundConnectionError::LocalPeerId { .. }));
                    assert!(obtained == local);
                }
                _ => assert!(false),
            }
        }
    }
    std::mem::forget(r);
}

/// Vacuity canary: must FAIL.
#[kani::proof]
#[kani::unwind(70)]
fn canary_always_accepts() {
    let env = CheckEnv { local_id: any_peer() };
    let (_, endpoint) = any_endpoint();
    let r = env.check_peer_id(None, any_peer(), endpoint, ConnectionId::new_unchecked(1));
    assert!(r.is_ok());
    std::mem::forget(r);
}
