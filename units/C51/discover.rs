// C51 (part 2) — discovery: the body of `Registrations::get`, extracted verbatim on every
// run into a method of `GetEnv`, which has the three fields of `Registrations` the text
// uses, under the same names:
//     registrations_for_peer : bimap::BiMap<(PeerId, Namespace), RegistrationId>  -> `BiMap` below
//     registrations          : HashMap<RegistrationId, Registration>              -> `RegMap` below
//     cookies                : hashlink::LruCache<Cookie, HashSet<RegistrationId>> -> `CookieCache` of `IdSet`
// (array-backed finite maps / sets; assumed contracts listed in unit.json).
// `RegistrationId` and `CookieNamespaceMismatch` are the real types.  `PeerId` -> one byte (the
// text of `get` never looks at the peer: pattern `(_, namespace)`); `Namespace` (a String)
// -> small integer; `Registration` (holds a signed PeerRecord) -> plain data carrying its own id
// so that the harness can tell WHICH registration came back; `Cookie` (random u64 + optional
// Namespace) -> the same two fields with a fresh arbitrary id in place of rand::random, its
// accessor `namespace()` extracted verbatim from codec.rs.
//
// Liveness of a registration: `add` enters it in `registrations_for_peer` and `registrations`;
// `remove`, expiry (`poll`) and a superseding refresh take its id out of `registrations_for_peer`.
// So "live" == its id is a right value of `registrations_for_peer`; `registrations` may hold
// more (the harness states include a stale entry) and discovery must not return those.
//
// Contract from the statement ("Discovery never returns an expired or superseded registration,
// and repeated discovery with the returned cookie returns each registration at most once"),
// one step from ANY well-formed state within the bound:
//   (i)   every returned registration is live, of the requested namespace, returned once,
//         and at most `limit` are returned;
//   (ii)  seen(c) = the id set stored for cookie c.  A discover presenting c returns nothing in
//         seen(c); afterwards seen(new cookie) >= seen(c) + returned, and every cookie already
//         stored (the presented one included) is still stored with at least its old set.
//         By induction: whatever the call that issued c returned (and every call before it in
//         the chain) stays in seen(c) forever, so presenting c once or many times never
//         returns any of it again;
//   (iii) a cookie for namespace A presented with a discover for namespace B != A is refused,
//         and the cookie handed out is bound to the namespace of the discover that produced it.

const GCAP: usize = 4;
/// registration ids of the states live in 0..IDS
const IDS: usize = 4;

#[derive(Clone, Copy, PartialEq, Eq, Debug)]
pub(crate) struct Namespace(pub(crate) u8);

/// stand-in for codec::Registration (namespace + signed record + ttl): the text of `get` only
/// hands out references; `rid` is the key it is stored under (ghost, for observation)
pub(crate) struct Registration {
    pub(crate) namespace: Namespace,
    pub(crate) rid: u64,
}

#[derive(Clone, PartialEq, Eq)]
pub(crate) struct Cookie {
    id: u64,
    namespace: Option<Namespace>,
}
/// stands for rand::random::<u64>(): any id not in use (cookie ids of the states are < 100)
fn fresh_cookie_id() -> u64 {
    // the executed sequence harness switches to consecutive concrete fresh ids (cheaper: cookie
    // look-ups stay concrete); every one-step harness leaves the arbitrary fresh id
    unsafe {
        if NEXT_COOKIE_ID != ARBITRARY_FRESH_ID {
            let x = NEXT_COOKIE_ID;
            NEXT_COOKIE_ID = x + 1;
            return x;
        }
    }
    let x: u64 = kani::any();
    kani::assume(x >= 100);
    x
}
const ARBITRARY_FRESH_ID: u64 = 0x5eed_c51c_0000_0001;
static mut NEXT_COOKIE_ID: u64 = ARBITRARY_FRESH_ID;
impl Cookie {
    pub(crate) fn for_namespace(namespace: Namespace) -> Self {
        Cookie { id: fresh_cookie_id(), namespace: Some(namespace) }
    }
    pub(crate) fn for_all_namespaces() -> Self {
        Cookie { id: fresh_cookie_id(), namespace: None }
    }
}

fn overflow() -> ! {
    panic!("verif shim capacity exceeded")
}

/// finite set of RegistrationId over the universe 0..IDS (stand-in for HashSet<RegistrationId>)
#[derive(Clone, Copy, Default)]
pub(crate) struct IdSet {
    bits: [bool; IDS],
}
impl IdSet {
    pub(crate) fn contains(&self, id: &RegistrationId) -> bool {
        let mut i = 0;
        while i < IDS {
            if self.bits[i] && id.0 == i as u64 {
                return true;
            }
            i += 1;
        }
        false
    }
    fn put(&mut self, id: RegistrationId) {
        let mut i = 0;
        while i < IDS {
            if id.0 == i as u64 {
                self.bits[i] = true;
                return;
            }
            i += 1;
        }
        overflow()
    }
    fn has(&self, id: u64) -> bool {
        self.contains(&RegistrationId(id))
    }
    fn includes(&self, o: &IdSet) -> bool {
        let mut i = 0;
        let mut ok = true;
        while i < IDS {
            if o.bits[i] && !self.bits[i] {
                ok = false;
            }
            i += 1;
        }
        ok
    }
}
impl<'a> Extend<&'a RegistrationId> for IdSet {
    fn extend<I: IntoIterator<Item = &'a RegistrationId>>(&mut self, it: I) {
        for id in it {
            self.put(*id);
        }
    }
}

/// array-backed stand-in for bimap::BiMap<L, R>: iteration in slot order, the harness puts
/// arbitrary entries into the slots (=> arbitrary iteration order relative to the content)
pub(crate) struct BiMap<L, R> {
    cells: [Option<(L, R)>; GCAP],
}
pub(crate) struct BiIter<'a, L, R> {
    m: &'a BiMap<L, R>,
    i: usize,
}
impl<'a, L, R> Iterator for BiIter<'a, L, R> {
    type Item = (&'a L, &'a R);
    fn next(&mut self) -> Option<Self::Item> {
        while self.i < GCAP {
            let k = self.i;
            self.i = k + 1;
            if let Some((l, r)) = &self.m.cells[k] {
                return Some((l, r));
            }
        }
        None
    }
}
impl<L, R> BiMap<L, R> {
    pub(crate) fn iter(&self) -> BiIter<'_, L, R> {
        BiIter { m: self, i: 0 }
    }
}

/// stand-in for HashMap<RegistrationId, Registration> (the text only calls `get`)
pub(crate) struct RegMap {
    cells: [Option<(RegistrationId, Registration)>; GCAP],
}
impl RegMap {
    pub(crate) fn get(&self, id: &RegistrationId) -> Option<&Registration> {
        let mut i = 0;
        while i < GCAP {
            if let Some((k, v)) = &self.cells[i] {
                if k == id {
                    return Some(v);
                }
            }
            i += 1;
        }
        None
    }
}

/// stand-in for hashlink::LruCache<Cookie, HashSet<RegistrationId>> below its capacity: a finite
/// map (`get` of an LruCache takes &mut self because it re-orders; no entry is evicted while
/// fewer than max_cookies are stored)
pub(crate) struct CookieCache {
    cells: [Option<(Cookie, IdSet)>; GCAP],
}
impl CookieCache {
    // no cell is ever addressed through a computed (symbolic) index: the loops below use the
    // loop counter, which is concrete in every unrolled iteration
    pub(crate) fn get(&mut self, k: &Cookie) -> Option<&IdSet> {
        let mut i = 0;
        while i < GCAP {
            if let Some((c, v)) = &self.cells[i] {
                if c == k {
                    return Some(v);
                }
            }
            i += 1;
        }
        None
    }
    pub(crate) fn insert(&mut self, k: Cookie, v: IdSet) -> Option<IdSet> {
        let mut i = 0;
        while i < GCAP {
            if let Some((c, old)) = &mut self.cells[i] {
                if *c == k {
                    return Some(std::mem::replace(old, v));
                }
            }
            i += 1;
        }
        let mut i = 0;
        while i < GCAP {
            if self.cells[i].is_none() {
                self.cells[i] = Some((k, v));
                return None;
            }
            i += 1;
        }
        overflow()
    }
    /// rest of the map interface of LruCache that a variant of the text may use
    pub(crate) fn remove(&mut self, k: &Cookie) -> Option<IdSet> {
        let mut i = 0;
        while i < GCAP {
            let hit = match &self.cells[i] {
                Some((c, _)) => c == k,
                None => false,
            };
            if hit {
                return self.cells[i].take().map(|(_, v)| v);
            }
            i += 1;
        }
        None
    }
    pub(crate) fn get_mut(&mut self, k: &Cookie) -> Option<&mut IdSet> {
        let mut i = 0;
        while i < GCAP {
            if let Some((c, v)) = &mut self.cells[i] {
                if *c == *k {
                    return Some(v);
                }
            }
            i += 1;
        }
        None
    }
    pub(crate) fn contains_key(&self, k: &Cookie) -> bool {
        self.peek(k).is_some()
    }
    fn peek(&self, k: &Cookie) -> Option<IdSet> {
        let mut i = 0;
        while i < GCAP {
            if let Some((c, v)) = &self.cells[i] {
                if c == k {
                    return Some(*v);
                }
            }
            i += 1;
        }
        None
    }
}

pub(crate) struct GetEnv {
    pub(crate) registrations_for_peer: BiMap<(Peer, Namespace), RegistrationId>,
    pub(crate) registrations: RegMap,
    pub(crate) cookies: CookieCache,
}

// impl GetEnv { fn get(&mut self, discover_namespace: Option<Namespace>, cookie: Option<Cookie>, limit: Option<u64>)
//                   -> Result<(impl Iterator<Item = &Registration> + '_, Cookie), CookieNamespaceMismatch> }
// impl Cookie { pub fn namespace(&self) -> Option<&Namespace> }
include!(concat!(env!("LIBP2P_VERIF_GEN"), "/C51/get_fragment.rs"));

/// stand-in for PeerId (never read by the text of `get`)
#[derive(Clone, Copy, PartialEq, Eq)]
pub(crate) struct Peer(pub(crate) u8);
fn peer(b: u8) -> Peer {
    Peer(b)
}
fn any_ns() -> Namespace {
    let b: u8 = kani::any();
    kani::assume(b < 3);
    Namespace(b)
}
fn any_opt_ns() -> Option<Namespace> {
    if kani::any() { Some(any_ns()) } else { None }
}
fn any_idset() -> IdSet {
    IdSet { bits: kani::any() }
}

/// ANY well-formed state with <= 3 live registrations (2 peers x 3 namespaces, distinct
/// (peer, namespace) keys), possibly one stale entry in `registrations` (an id that is not
/// live), and `ncookies` <= 2 stored cookies with arbitrary seen-sets (arbitrary subsets of the
/// four ids, the stale one included).
/// Registration ids: slot i holds id i, the stale entry id 3.  WLOG: ids are opaque random
/// numbers which the text only copies and compares for equality, every seen-set is an
/// arbitrary subset and every slot is independently empty or holds an arbitrary (peer,
/// namespace), so every state is a renaming of the ids of one of these (measured: symbolic
/// ids with pairwise-distinctness assumptions cost 350-400 s per harness).
fn any_env(ncookies: usize) -> GetEnv {
    let mut fp: [Option<((Peer, Namespace), RegistrationId)>; GCAP] = [None; GCAP];
    let mut regs: [Option<(RegistrationId, Registration)>; GCAP] = [None, None, None, None];
    let mut pb = [0u8; 3];
    let mut nsb = [0u8; 3];
    let mut live = [false; 3];
    let mut i = 0;
    while i < 3 {
        if kani::any() {
            let b: u8 = kani::any();
            kani::assume(b < 2);
            let ns = any_ns();
            let id: u64 = i as u64;
            fp[i] = Some(((peer(b), ns), RegistrationId(id)));
            regs[i] = Some((RegistrationId(id), Registration { namespace: ns, rid: id }));
            pb[i] = b;
            nsb[i] = ns.0;
            live[i] = true;
        }
        i += 1;
    }
    // BiMap is a bijection
    let mut a = 0;
    while a < 3 {
        let mut b = a + 1;
        while b < 3 {
            if live[a] && live[b] {
                kani::assume(pb[a] != pb[b] || nsb[a] != nsb[b]);
            }
            b += 1;
        }
        a += 1;
    }
    // a registration that is no longer live but still stored (expired-not-yet-polled / superseded)
    if kani::any() {
        let id: u64 = 3;
        regs[3] = Some((RegistrationId(id), Registration { namespace: any_ns(), rid: id }));
    }
    let mut cookies: [Option<(Cookie, IdSet)>; GCAP] = [None, None, None, None];
    let mut c = 0;
    while c < ncookies {
        let id: u64 = kani::any();
        kani::assume(id < 100);
        cookies[c] = Some((Cookie { id, namespace: any_opt_ns() }, any_idset()));
        c += 1;
    }
    if ncookies == 2 {
        let same = match (&cookies[0], &cookies[1]) {
            (Some((x, _)), Some((y, _))) => x == y,
            _ => false,
        };
        kani::assume(!same);
    }
    GetEnv { registrations_for_peer: BiMap { cells: fp }, registrations: RegMap { cells: regs }, cookies: CookieCache { cells: cookies } }
}

/// what one discover handed out (owned copy, so that the state can be inspected afterwards)
struct Got {
    rid: [u64; GCAP],
    ns: [u8; GCAP],
    n: usize,
    cookie: Cookie,
}
impl Got {
    fn has(&self, id: u64) -> bool {
        let mut i = 0;
        let mut f = false;
        while i < GCAP {
            if i < self.n && self.rid[i] == id {
                f = true;
            }
            i += 1;
        }
        f
    }
    fn disjoint(&self, o: &Got) -> bool {
        let mut i = 0;
        let mut ok = true;
        while i < GCAP {
            if i < self.n && o.has(self.rid[i]) {
                ok = false;
            }
            i += 1;
        }
        ok
    }
}

fn discover(e: &mut GetEnv, ns: Option<Namespace>, cookie: Option<Cookie>, limit: Option<u64>) -> Result<Got, CookieNamespaceMismatch> {
    let (it, new_cookie) = e.get(ns, cookie, limit)?;
    let mut g = Got { rid: [u64::MAX; GCAP], ns: [0; GCAP], n: 0, cookie: new_cookie };
    for r in it {
        assert!(g.n < GCAP, "C51 discover: more registrations returned than exist");
        g.rid[g.n] = r.rid;
        g.ns[g.n] = r.namespace.0;
        g.n += 1;
    }
    Ok(g)
}

/// the left namespace under which `id` is live, if it is
fn live_ns(e: &GetEnv, id: u64) -> Option<u8> {
    let mut i = 0;
    let mut r = None;
    while i < GCAP {
        if let Some(((_, ns), rid)) = &e.registrations_for_peer.cells[i] {
            if rid.0 == id {
                r = Some(ns.0);
            }
        }
        i += 1;
    }
    r
}

fn any_cookie_arg() -> Option<Cookie> {
    // any cookie value: one of the stored ones, or one the server has never seen / has forgotten
    if kani::any() {
        let id: u64 = kani::any();
        kani::assume(id < 100);
        Some(Cookie { id, namespace: any_opt_ns() })
    } else {
        None
    }
}

/// (i) only live registrations of the requested namespace, each once, at most `limit`
#[kani::proof]
#[kani::unwind(5)]
fn discover_returns_only_live_registrations_of_the_namespace() {
    let mut e = any_env(1);
    let ns = any_opt_ns();
    let limit: Option<u64> = kani::any();
    let r = discover(&mut e, ns, any_cookie_arg(), limit);
    if let Ok(g) = r {
        kani::cover!(g.n == 3);
        kani::cover!(g.n == 1);
        if let Some(l) = limit {
            assert!(g.n as u64 <= l, "C51 discover: more registrations returned than the limit");
        }
        let mut i = 0;
        while i < GCAP {
            if i < g.n {
                let l = live_ns(&e, g.rid[i]);
                assert!(l.is_some(), "C51 discover: returned a registration that is not live (expired, removed or superseded)");
                assert!(l == Some(g.ns[i]), "C51 discover: returned registration is not the one stored under its id");
                if let Some(want) = ns {
                    assert!(g.ns[i] == want.0, "C51 discover: returned a registration of another namespace");
                }
                let mut j = i + 1;
                while j < GCAP {
                    assert!(!(j < g.n && g.rid[j] == g.rid[i]), "C51 discover: the same registration returned twice in one response");
                    j += 1;
                }
            }
            i += 1;
        }
    }
}

/// (ii) first half: a discover presenting a stored cookie returns nothing in that cookie's seen-set
#[kani::proof]
#[kani::unwind(5)]
fn discover_with_a_cookie_skips_what_the_cookie_has_seen() {
    let mut e = any_env(2);
    let ns = any_opt_ns();
    let c = any_cookie_arg();
    let seen = match &c {
        Some(c) => e.cookies.peek(c),
        None => None,
    };
    kani::assume(seen.is_some());
    let seen = seen.unwrap();
    let r = discover(&mut e, ns, c, kani::any());
    if let Ok(g) = r {
        kani::cover!(g.n == 2);
        let mut i = 0;
        while i < GCAP {
            assert!(!(i < g.n && seen.has(g.rid[i])), "C51 discover: returned a registration the presented cookie had already seen");
            i += 1;
        }
    }
}

/// (ii) second half: the new cookie remembers old seen-set + returned; every stored cookie
/// (the presented one too) survives with at least its old seen-set
#[kani::proof]
#[kani::unwind(5)]
fn discover_keeps_and_extends_the_seen_sets() {
    let mut e = any_env(2);
    let ns = any_opt_ns();
    let c = any_cookie_arg();
    let seen = match &c {
        Some(c) => e.cookies.peek(c),
        None => None,
    };
    let (k0, s0) = match &e.cookies.cells[0] {
        Some((k, s)) => (k.clone(), *s),
        None => unreachable!(),
    };
    let (k1, s1) = match &e.cookies.cells[1] {
        Some((k, s)) => (k.clone(), *s),
        None => unreachable!(),
    };
    let r = discover(&mut e, ns, c, kani::any());
    if let Ok(g) = r {
        kani::cover!(seen.is_some() && g.n > 0);
        let now = e.cookies.peek(&g.cookie);
        assert!(now.is_some(), "C51 discover: the cookie handed out is not stored");
        let now = now.unwrap();
        if let Some(seen) = seen {
            assert!(now.includes(&seen), "C51 discover: the new cookie forgot what the presented cookie had seen");
        }
        let mut i = 0;
        while i < GCAP {
            assert!(!(i < g.n && !now.has(g.rid[i])), "C51 discover: the new cookie does not remember a registration just returned");
            i += 1;
        }
        let a = e.cookies.peek(&k0);
        let b = e.cookies.peek(&k1);
        assert!(a.is_some() && b.is_some(), "C51 discover: a stored cookie was dropped by a discover");
        assert!(a.unwrap().includes(&s0) && b.unwrap().includes(&s1), "C51 discover: a stored cookie lost part of its seen-set");
    }
}

/// (iii) namespace binding of cookies
#[kani::proof]
#[kani::unwind(5)]
fn discover_refuses_a_cookie_of_another_namespace() {
    let mut e = any_env(1);
    let ns = any_opt_ns();
    let c = any_cookie_arg();
    let cns = match &c {
        Some(c) => c.namespace,
        None => None,
    };
    let r = discover(&mut e, ns, c, kani::any());
    match r {
        Err(_) => {
            // no spurious refusal: only a namespace-bound cookie used for something else
            assert!(cns.is_some() && cns != ns, "C51 discover: refused although the cookie fits the discover");
        }
        Ok(g) => {
            if let (Some(a), Some(b)) = (cns, ns) {
                assert!(a == b, "C51 discover: a cookie for one namespace was accepted for another");
            }
            assert!(g.cookie.namespace == ns, "C51 discover: the cookie handed out is not bound to the namespace of the discover");
        }
    }
}

/// pagination, executed on one concrete table (3 live registrations: ids 0, 1 in namespace 0,
/// id 2 in namespace 1; one stale entry) with consecutive fresh cookie ids: discover namespace
/// 0 one registration per page, present c1, present c1 AGAIN, present c2.
/// (measured: the same sequence from an arbitrary table ran CBMC out of memory / did not finish
/// in 800 s; the general statement is the induction of discover_keeps_and_extends_the_seen_sets)
#[kani::proof]
#[kani::unwind(5)]
fn discover_pagination_sequence_returns_each_registration_at_most_once() {
    unsafe { NEXT_COOKIE_ID = 1000 };
    let fp = [
        Some(((peer(0), Namespace(0)), RegistrationId(0))),
        Some(((peer(1), Namespace(0)), RegistrationId(1))),
        Some(((peer(0), Namespace(1)), RegistrationId(2))),
        None,
    ];
    let regs = [
        Some((RegistrationId(0), Registration { namespace: Namespace(0), rid: 0 })),
        Some((RegistrationId(1), Registration { namespace: Namespace(0), rid: 1 })),
        Some((RegistrationId(2), Registration { namespace: Namespace(1), rid: 2 })),
        Some((RegistrationId(3), Registration { namespace: Namespace(0), rid: 3 })),
    ];
    let mut e = GetEnv { registrations_for_peer: BiMap { cells: fp }, registrations: RegMap { cells: regs }, cookies: CookieCache { cells: [None, None, None, None] } };
    let ns = Some(Namespace(0));
    let g1 = discover(&mut e, ns, None, Some(1));
    let g1 = match g1 {
        Ok(g) => g,
        Err(_) => {
            assert!(false, "C51 discover: refused without a cookie");
            return;
        }
    };
    assert!(g1.n == 1);
    let g2 = discover(&mut e, ns, Some(g1.cookie.clone()), Some(1));
    let g3 = discover(&mut e, ns, Some(g1.cookie.clone()), None);
    match (g2, g3) {
        (Ok(g2), Ok(g3)) => {
            assert!(g2.disjoint(&g1), "C51 discover: the returned cookie did not suppress what was already returned");
            assert!(g3.disjoint(&g1), "C51 discover: presenting the same cookie a second time returned an already returned registration");
            let g4 = discover(&mut e, ns, Some(g2.cookie.clone()), None);
            match g4 {
                Ok(g4) => assert!(g4.disjoint(&g1) && g4.disjoint(&g2), "C51 discover: the second cookie returned a registration of page one or two"),
                Err(_) => assert!(false, "C51 discover: own cookie refused"),
            }
        }
        _ => assert!(false, "C51 discover: own cookie refused"),
    }
}

/// Vacuity canary: must FAIL (discovery would never return anything).
#[kani::proof]
#[kani::unwind(5)]
fn canary_discover_returns_nothing() {
    let mut e = any_env(0);
    if let Ok(g) = discover(&mut e, None, None, None) {
        assert!(g.n == 0);
    }
}
