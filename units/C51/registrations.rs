// C51 — rendezvous registrations: TTL range, per-peer / total limits, refresh.
//
// `Registrations::add` takes a `NewRegistration` whose `record` is a signed
// `PeerRecord` (cannot be built without key generation and signing) and pushes a
// boxed timer into a `FuturesUnordered`, so the method itself cannot be executed
// by the verifier.  Its two decision pieces are extracted verbatim on every run:
//   TTL     the `if ttl > max_ttl || ttl < min_ttl { return Err(InvalidTtl) }` statement
//   ADMIT   from `let peer = ...` up to and including the insertion into
//           `registrations_for_peer` (limit test, id generation, BiMap insert)
// and wrapped as methods of an environment with exactly the fields they read.
// Stand-ins: `bimap::BiMap` -> array-backed bimap below (assumed contract: a
// bijection; `insert` first removes any pair with the same left or the same right
// value); `NewRegistration` -> a value with `.record.peer_id()` and `.namespace`;
// `Namespace` -> small integer; `RegistrationId::new()` (rand) -> any u64.
//
// Contract from the statement:
//   * accepted only with min_ttl <= ttl <= max_ttl;
//   * never more than max_registrations_per_peer registrations of one peer,
//     never more than max_registrations_total in total;
//   * re-registering an existing (peer, namespace) is a refresh: it is allowed
//     even when the peer is at its limit, and replaces the old entry.

const BCAP: usize = 4;

#[derive(Clone, Copy, PartialEq, Eq)]
pub(crate) struct Ns(pub(crate) u8);

pub(crate) struct Rec(pub(crate) PeerId);
impl Rec {
    pub(crate) fn peer_id(&self) -> PeerId {
        self.0
    }
}
pub(crate) struct NewReg {
    pub(crate) record: Rec,
    pub(crate) namespace: Ns,
}

/// array-backed stand-in for bimap::BiMap<L, R>
pub(crate) struct BiMapModel<L, R> {
    cells: [Option<(L, R)>; BCAP],
}
impl<L: Eq + Copy, R: Eq + Copy> BiMapModel<L, R> {
    pub(crate) fn new() -> Self {
        BiMapModel { cells: [None; BCAP] }
    }
    pub(crate) fn len(&self) -> usize {
        self.cells.iter().filter(|c| c.is_some()).count()
    }
    pub(crate) fn left_values(&self) -> impl Iterator<Item = &L> + '_ {
        self.cells.iter().filter_map(|c| c.as_ref().map(|(l, _)| l))
    }
    pub(crate) fn get_by_left(&self, l: &L) -> Option<&R> {
        self.cells.iter().filter_map(|c| c.as_ref()).find(|(a, _)| a == l).map(|(_, r)| r)
    }
    pub(crate) fn remove_by_left(&mut self, l: &L) -> Option<(L, R)> {
        let mut i = 0;
        while i < BCAP {
            if let Some((a, _)) = &self.cells[i] {
                if a == l {
                    return self.cells[i].take();
                }
            }
            i += 1;
        }
        None
    }
    pub(crate) fn remove_by_right(&mut self, r: &R) -> Option<(L, R)> {
        let mut i = 0;
        while i < BCAP {
            if let Some((_, b)) = &self.cells[i] {
                if b == r {
                    return self.cells[i].take();
                }
            }
            i += 1;
        }
        None
    }
    /// bimap-0.6 `insert`: remove_by_left, remove_by_right, then insert
    pub(crate) fn insert(&mut self, l: L, r: R) {
        let _ = self.remove_by_left(&l);
        let _ = self.remove_by_right(&r);
        let mut i = 0;
        while i < BCAP {
            if self.cells[i].is_none() {
                self.cells[i] = Some((l, r));
                return;
            }
            i += 1;
        }
        panic!("verif shim capacity exceeded");
    }
}

/// Stand-in for the `registrations: HashMap<RegistrationId, Registration>` field: the
/// ADMIT text only ever removes the superseded id from it; the removal is recorded.
pub(crate) struct RegStore {
    pub(crate) removed: Option<RegistrationId>,
    pub(crate) removes: u8,
}
impl RegStore {
    pub(crate) fn new() -> Self {
        RegStore { removed: None, removes: 0 }
    }
    pub(crate) fn remove(&mut self, id: &RegistrationId) -> Option<()> {
        self.removed = Some(*id);
        self.removes += 1;
        Some(())
    }
}

pub(crate) struct AddEnv {
    pub(crate) config: Config,
    pub(crate) registrations_for_peer: BiMapModel<(PeerId, Ns), RegistrationId>,
    pub(crate) registrations: RegStore,
}

// impl AddEnv { fn ttl_check(&self, ttl) -> Result<(), ErrorCode>;  fn admit(&mut self, new_registration: NewReg) -> Result<RegistrationId, ErrorCode> }
include!(concat!(env!("LIBP2P_VERIF_GEN"), "/C51/add_fragments.rs"));

fn peer(b: u8) -> PeerId {
    PeerId::from_multihash(libp2p_core::multihash::Multihash::<64>::wrap(0, &[b]).unwrap()).unwrap()
}
fn any_peer() -> PeerId {
    let b: u8 = kani::any();
    kani::assume(b < 2);
    peer(b)
}
fn any_ns() -> Ns {
    let b: u8 = kani::any();
    kani::assume(b < 3);
    Ns(b)
}
/// stands for RegistrationId::new(): any id not in use (ids in use are 0..3)
fn fresh_id() -> u64 {
    let x: u64 = kani::any();
    kani::assume(x >= 3);
    x
}
fn small() -> usize {
    let x: u8 = kani::any();
    kani::assume(x <= 3);
    x as usize
}

fn config(min_ttl: Ttl, max_ttl: Ttl, per_peer: usize, total: usize) -> Config {
    Config { min_ttl, max_ttl, max_registrations_per_peer: per_peer, max_registrations_total: total, max_cookies: 1 }
}

fn count_of(e: &AddEnv, p: PeerId) -> usize {
    e.registrations_for_peer.left_values().filter(|(q, _)| *q == p).count()
}

/// any registration table with <= 3 entries (2 peers x 3 namespaces) that respects both limits
fn any_env() -> AddEnv {
    let mut e = AddEnv { config: config(0, u64::MAX, small(), small()), registrations_for_peer: BiMapModel::new(), registrations: RegStore::new() };
    let mut i = 0u64;
    while i < 3 {
        if kani::any() {
            // distinct ids, as RegistrationId::new() is assumed to yield
            e.registrations_for_peer.insert((any_peer(), any_ns()), RegistrationId(i));
        }
        i += 1;
    }
    kani::assume(count_of(&e, peer(0)) <= e.config.max_registrations_per_peer);
    kani::assume(count_of(&e, peer(1)) <= e.config.max_registrations_per_peer);
    kani::assume(e.registrations_for_peer.len() <= e.config.max_registrations_total);
    e
}

/// TTL clause (complete: every u64 ttl, min, max): refused <=> ttl outside [min_ttl, max_ttl]
#[kani::proof]
fn ttl_outside_range_is_refused() {
    let e = AddEnv { config: config(kani::any(), kani::any(), 0, 0), registrations_for_peer: BiMapModel::new(), registrations: RegStore::new() };
    let ttl: Ttl = kani::any();
    let r = e.ttl_check(ttl);
    let inside = e.config.min_ttl <= ttl && ttl <= e.config.max_ttl;
    assert!(r.is_ok() == inside);
    if let Err(c) = r {
        assert!(c == ErrorCode::InvalidTtl);
    }
}

/// after `add`'s admission step no peer holds more than max_registrations_per_peer
#[kani::proof]
#[kani::unwind(6)]
fn per_peer_limit_is_kept() {
    let mut e = any_env();
    let r = e.admit(NewReg { record: Rec(any_peer()), namespace: any_ns() });
    kani::cover!(r.is_ok());
    kani::cover!(r.is_err());
    let m = e.config.max_registrations_per_peer;
    assert!(count_of(&e, peer(0)) <= m && count_of(&e, peer(1)) <= m, "a peer holds more registrations than max_registrations_per_peer");
}

/// after `add`'s admission step at most max_registrations_total registrations exist
#[kani::proof]
#[kani::unwind(6)]
fn total_limit_is_kept() {
    let mut e = any_env();
    let r = e.admit(NewReg { record: Rec(any_peer()), namespace: any_ns() });
    kani::cover!(r.is_ok());
    assert!(e.registrations_for_peer.len() <= e.config.max_registrations_total, "C51: more registrations than max_registrations_total");
}

/// re-registering an existing (peer, namespace) is allowed even when the peer is at its limit
#[kani::proof]
#[kani::unwind(6)]
fn refresh_is_allowed_at_the_per_peer_limit() {
    let mut e = any_env();
    let p = any_peer();
    let ns = any_ns();
    kani::assume(e.registrations_for_peer.get_by_left(&(p, ns)).is_some());
    kani::cover!(count_of(&e, p) == e.config.max_registrations_per_peer);
    let r = e.admit(NewReg { record: Rec(p), namespace: ns });
    assert!(r.is_ok(), "C51: refresh of an existing (peer, namespace) was refused");
}

/// an admitted refresh REPLACES the entry: same number of registrations, the pair maps to the new id
#[kani::proof]
#[kani::unwind(6)]
fn refresh_replaces_the_old_entry() {
    let mut e = any_env();
    let p = any_peer();
    let ns = any_ns();
    let old = e.registrations_for_peer.get_by_left(&(p, ns)).copied();
    kani::assume(old.is_some());
    let n0 = e.registrations_for_peer.len();
    let c0 = count_of(&e, p);
    if let Ok(id) = e.admit(NewReg { record: Rec(p), namespace: ns }) {
        kani::cover!(true);
        assert!(e.registrations_for_peer.len() == n0 && count_of(&e, p) == c0);
        assert!(e.registrations_for_peer.get_by_left(&(p, ns)) == Some(&id));
        // the superseded registration is dropped from `registrations` (discovery never
        // returns it, its old timer finds nothing to expire)
        assert!(e.registrations.removes == 1 && e.registrations.removed == old, "C51: superseded registration id left in registrations");
    }
}

/// a NEW (peer, namespace) supersedes nothing
#[kani::proof]
#[kani::unwind(6)]
fn new_registration_supersedes_nothing() {
    let mut e = any_env();
    let p = any_peer();
    let ns = any_ns();
    kani::assume(e.registrations_for_peer.get_by_left(&(p, ns)).is_none());
    let _ = e.admit(NewReg { record: Rec(p), namespace: ns });
    assert!(e.registrations.removes == 0);
}

/// Vacuity canary: must FAIL.
#[kani::proof]
#[kani::unwind(6)]
fn canary_every_registration_is_refused() {
    let mut e = any_env();
    assert!(e.admit(NewReg { record: Rec(any_peer()), namespace: any_ns() }).is_err());
}
