// C04 — the `should_dial` decision of Swarm::dial, extracted verbatim on every run
// (K-fragment; the method itself needs a live Swarm).
// Contract, from the statement and the documentation of PeerCondition: a dial is
// allowed exactly when its PeerCondition holds in the current connected/dialing
// state of the target peer —
//   no target peer            -> allowed
//   Always                    -> allowed
//   Disconnected              -> allowed iff not connected
//   NotDialing                -> allowed iff not dialing
//   DisconnectedAndNotDialing -> allowed iff neither connected nor dialing
// The pool is a two-method stand-in answering is_connected / is_dialing with the
// symbolic state; it also checks that the fragment asks about the TARGET peer.

pub(crate) struct PoolState {
    target: PeerId,
    connected: bool,
    dialing: bool,
}

impl PoolState {
    fn is_connected(&self, peer: PeerId) -> bool {
        assert!(peer == self.target);
        self.connected
    }
    fn is_dialing(&self, peer: PeerId) -> bool {
        assert!(peer == self.target);
        self.dialing
    }
}

pub(crate) struct DialEnv {
    pool: PoolState,
}

include!(concat!(env!("LIBP2P_VERIF_GEN"), "/C04/should_dial_fragment.rs"));

fn any_peer() -> PeerId {
    let d: [u8; 4] = kani::any();
    PeerId::from_multihash(libp2p_core::multihash::Multihash::<64>::wrap(0, &d).unwrap()).unwrap()
}

fn any_condition() -> PeerCondition {
    let k: u8 = kani::any();
    match k {
        0 => PeerCondition::Disconnected,
        1 => PeerCondition::NotDialing,
        2 => PeerCondition::DisconnectedAndNotDialing,
        _ => PeerCondition::Always,
    }
}

#[kani::proof]
#[kani::unwind(70)]
fn contract_should_dial_truth_table() {
    let target = any_peer();
    let env = DialEnv { pool: PoolState { target, connected: kani::any(), dialing: kani::any() } };
    let condition = any_condition();
    let peer_id: Option<PeerId> = if kani::any() { Some(target) } else { None };
    let allowed = env.should_dial(condition, peer_id);
    let (c, d) = (env.pool.connected, env.pool.dialing);
    let holds = match (peer_id.is_some(), condition) {
        (false, _) => true,
        (true, PeerCondition::Always) => true,
        (true, PeerCondition::Disconnected) => !c,
        (true, PeerCondition::NotDialing) => !d,
        (true, PeerCondition::DisconnectedAndNotDialing) => !c && !d,
    };
    kani::cover!(holds);
    kani::cover!(!holds);
    assert!(allowed == holds);
}

/// Vacuity canary: must FAIL.
#[kani::proof]
#[kani::unwind(70)]
fn canary_every_dial_allowed() {
    let target = any_peer();
    let env = DialEnv { pool: PoolState { target, connected: kani::any(), dialing: kani::any() } };
    assert!(env.should_dial(any_condition(), Some(target)));
}
