// C03 — ConnectionId::next.  Sequential contract: with c = NEXT_CONNECTION_ID,
// next() returns ConnectionId(old(c)) and leaves c = old(c)+1.  The concurrent
// claim follows from "the body is exactly one atomic read-modify-write on the
// counter": plain loads and stores of the counter are stubbed to panic, so any
// implementation that reads and writes the counter in two steps fails here.

use std::sync::atomic::Ordering;

fn peek() -> usize {
    NEXT_CONNECTION_ID.fetch_add(0, Ordering::SeqCst)
}

fn set(v: usize) {
    NEXT_CONNECTION_ID.swap(v, Ordering::SeqCst);
}

/// next() from ANY counter value below usize::MAX: returns the old value and
/// increments by exactly one (real compiled function, sequential semantics).
#[kani::proof]
fn contract_next() {
    let c0: usize = kani::any();
    kani::assume(c0 < usize::MAX);
    set(c0);
    let id = ConnectionId::next();
    assert!(id.0 == c0);
    assert!(peek() == c0 + 1);
}

// ---- atomicity under interference ------------------------------------------
// The text of `static NEXT_CONNECTION_ID` and of the body of `next()` is
// extracted verbatim on every run and compiled against `interfere::AtomicUsize`,
// a linearisable atomic whose every operation may be preceded and followed by
// steps of ANOTHER thread allocating ids from the same counter.  The contract of
// next() under interference: the id it returns is never an id the other thread
// obtained, before or after.
pub(crate) mod interfere {
    use std::cell::UnsafeCell;
    pub(crate) use std::sync::atomic::Ordering;

    pub(crate) struct AtomicUsize(UnsafeCell<usize>);
    unsafe impl Sync for AtomicUsize {}

    pub(crate) const MAX_OTHER: usize = 4;
    pub(crate) static mut OTHER_IDS: [usize; MAX_OTHER] = [0x5EED_0C03_0000_0001; MAX_OTHER];
    // distinctive initial value (Kani 0.68 deduplicated an 8-zero-byte std constant onto a
    // zero-initialised `static mut`, see shims/clock.rs); the harness resets it to 0 first
    pub(crate) static mut OTHER_N: usize = 0x5EED_0C03_5EED_0C03;

    impl AtomicUsize {
        pub(crate) const fn new(v: usize) -> Self {
            AtomicUsize(UnsafeCell::new(v))
        }
        fn cell(&self) -> &mut usize {
            unsafe { &mut *self.0.get() }
        }
        /// zero or one allocation by the other thread (a correct atomic fetch_add)
        pub(crate) fn other_thread_step(&self) {
            unsafe {
                if OTHER_N < MAX_OTHER && kani::any() {
                    let v = self.cell();
                    if *v < usize::MAX {
                        OTHER_IDS[OTHER_N] = *v;
                        OTHER_N += 1;
                        *v += 1;
                    }
                }
            }
        }
        pub(crate) fn raw_set(&self, v: usize) {
            *self.cell() = v;
        }
        pub(crate) fn load(&self, _: Ordering) -> usize {
            self.other_thread_step();
            let r = *self.cell();
            self.other_thread_step();
            r
        }
        pub(crate) fn store(&self, v: usize, _: Ordering) {
            self.other_thread_step();
            *self.cell() = v;
            self.other_thread_step();
        }
        pub(crate) fn swap(&self, v: usize, _: Ordering) -> usize {
            self.other_thread_step();
            let r = *self.cell();
            *self.cell() = v;
            self.other_thread_step();
            r
        }
        pub(crate) fn fetch_add(&self, d: usize, _: Ordering) -> usize {
            self.other_thread_step();
            let r = *self.cell();
            *self.cell() = r.wrapping_add(d);
            self.other_thread_step();
            r
        }
        pub(crate) fn fetch_sub(&self, d: usize, _: Ordering) -> usize {
            self.other_thread_step();
            let r = *self.cell();
            *self.cell() = r.wrapping_sub(d);
            self.other_thread_step();
            r
        }
        pub(crate) fn compare_exchange(&self, cur: usize, new: usize, _: Ordering, _: Ordering) -> Result<usize, usize> {
            self.other_thread_step();
            let r = *self.cell();
            let out = if r == cur {
                *self.cell() = new;
                Ok(r)
            } else {
                Err(r)
            };
            self.other_thread_step();
            out
        }
        pub(crate) fn compare_exchange_weak(&self, cur: usize, new: usize, a: Ordering, b: Ordering) -> Result<usize, usize> {
            self.compare_exchange(cur, new, a, b)
        }
    }
}

pub(crate) mod extracted {
    #[allow(unused_imports)]
    use super::interfere::{AtomicUsize, Ordering};
    include!(concat!(env!("LIBP2P_VERIF_GEN"), "/C03/next_fragment.rs"));
}

#[kani::proof]
#[kani::unwind(6)]
fn next_is_unique_under_interference() {
    unsafe { interfere::OTHER_N = 0 };
    let c0: usize = kani::any();
    kani::assume(c0 < usize::MAX - 16);
    extracted::NEXT_CONNECTION_ID.raw_set(c0);
    let mine = extracted::ConnectionId::next();
    // the other thread may keep allocating afterwards
    extracted::NEXT_CONNECTION_ID.other_thread_step();
    unsafe {
        kani::cover!(interfere::OTHER_N >= 2);
        let mut i = 0;
        while i < interfere::OTHER_N {
            assert!(interfere::OTHER_IDS[i] != mine.0);
            i += 1;
        }
    }
}

/// Any two ids handed out (with arbitrary many allocations in between, modelled
/// by an arbitrary forward jump of the counter) are distinct, and ids are
/// strictly increasing: the lemma "strictly increasing counter + one RMW per
/// call => pairwise distinct ids".
#[kani::proof]
fn lemma_two_ids_distinct() {
    let c0: usize = kani::any();
    kani::assume(c0 < usize::MAX - 1);
    set(c0);
    let a = ConnectionId::next();
    // other allocations happen: the counter only moves forward
    let jump: usize = kani::any();
    let mid = peek();
    kani::assume(jump <= usize::MAX - 1 - mid);
    set(mid + jump);
    let b = ConnectionId::next();
    assert!(a != b);
    assert!(a < b);
}

/// The counter starts at 1 (id 0 is never issued by next()).
#[kani::proof]
fn initial_counter_is_one() {
    assert!(peek() == 1);
    assert!(ConnectionId::next().0 == 1);
}

/// Vacuity canary: must FAIL.
#[kani::proof]
fn canary_next_repeats() {
    let a = ConnectionId::next();
    let b = ConnectionId::next();
    assert!(a == b);
}
