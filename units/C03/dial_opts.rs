// C03 — every DialOpts builder takes its connection id from ConnectionId::next():
// the id equals the process-wide counter's value before the call and the counter
// has advanced by one afterwards (so two builds never share an id).

fn some_peer() -> PeerId {
    PeerId::from_multihash(libp2p_core::multihash::Multihash::<64>::wrap(0, &[7u8, 7, 7]).unwrap()).unwrap()
}

fn probe_counter() -> usize {
    // reads the counter by allocating one id (the only crate-visible access)
    let id = ConnectionId::next();
    format_id(id)
}

fn format_id(id: ConnectionId) -> usize {
    // ConnectionId is Ord + Copy; recover its numeric value by comparison with
    // new_unchecked (public constructor) – loop-free via binary identity:
    // new_unchecked(x) == id  <=>  x is the value.
    let x: usize = kani::any();
    kani::assume(ConnectionId::new_unchecked(x) == id);
    x
}

#[kani::proof]
fn builders_take_fresh_ids() {
    let c0 = probe_counter();
    kani::assume(c0 < usize::MAX - 8);
    let a = DialOpts::peer_id(some_peer()).build();
    let b = DialOpts::peer_id(some_peer()).addresses(vec![]).build();
    let c = DialOpts::unknown_peer_id().address(Multiaddr::empty()).build();
    let d = DialOpts::from(some_peer());
    let e = DialOpts::from(Multiaddr::empty());
    assert!(format_id(a.connection_id()) == c0 + 1);
    assert!(format_id(b.connection_id()) == c0 + 2);
    assert!(format_id(c.connection_id()) == c0 + 3);
    assert!(format_id(d.connection_id()) == c0 + 4);
    assert!(format_id(e.connection_id()) == c0 + 5);
    assert!(probe_counter() == c0 + 6);
}
