#!/bin/sh
# usage: add_hook.sh <repo-relative file> <hook name>  — appends the cfg(kani) include hook
f=/repo/$1; n=$2
grep -q "hooks/$n.rs" "$f" && { echo "already hooked: $f"; exit 0; }
cat >> "$f" <<EOF

#[cfg(kani)]
pub(crate) mod verif {
    include!(concat!(env!("LIBP2P_VERIF"), "/hooks/$n.rs"));
}
EOF
[ -f /verif/hooks/$n.rs ] || cat > /verif/hooks/$n.rs <<EOF
// Pasted into $1 (mod verif) under cfg(kani).
#[allow(unused_imports)]
use super::*;
EOF
echo "hooked $f"
